#!/bin/sh
# Builds the gosmt engine from /verif/engine (offline, module cache only).
set -e
cd "$(dirname "$0")/engine"
export GOFLAGS=-mod=mod GOPROXY=off GOTOOLCHAIN=local PATH=/opt/veriftools/go1.26.8/bin:$PATH
mkdir -p ../bin
go build -o ../bin/gosmt .
