#!/usr/bin/env python3
"""Fills the SEEDTABLE block of DESIGN.md §14.4 from seeded/*/meta.json and seeded/RESULTS.txt."""
import json, os, re, glob
root = os.path.dirname(os.path.dirname(os.path.abspath(__file__)))
res = {}
rp = os.path.join(root, "seeded", "RESULTS.txt")
if os.path.exists(rp):
    for l in open(rp):
        m = re.match(r"\[(C\d+[a-z]?-mut\d+) vs (C\d+)/quick\] exit=(\d+)", l)
        if m:
            res[m.group(1)] = (m.group(2), int(m.group(3)))
rows = ["| seeded change | what it does (needs) | check run | result |", "|---|---|---|---|"]
for d in sorted(glob.glob(os.path.join(root, "seeded", "C*-mut*"))):
    name = os.path.basename(d)
    meta = json.load(open(os.path.join(d, "meta.json")))
    summ = re.sub(r"\s+", " ", meta.get("summary", "")).replace("|", "/")
    if len(summ) > 170:
        summ = summ[:167] + "..."
    c, e = res.get(name, (re.sub(r"[a-z]$", "", name.split("-")[0]), None))
    verdict = {None: "not run", 0: "**missed** (exit 0)", 1: "caught (VIOLATION, exit 1)", 2: "harness no longer compiles (exit 2)", 3: "inconclusive (exit 3)"}.get(e, "exit %s" % e)
    extra = meta.get("caught_by", "")
    if extra:
        verdict += "; " + extra
    rows.append("| %s | %s | %s quick | %s |" % (name, summ, c, verdict))
table = "\n".join(rows)
dp = os.path.join(root, "DESIGN.md")
s = open(dp).read()
if "SEEDTABLE" in s:
    s = s.replace("SEEDTABLE", "<!-- seedtable:begin -->\n" + table + "\n<!-- seedtable:end -->")
else:
    s = re.sub(r"<!-- seedtable:begin -->.*?<!-- seedtable:end -->", "<!-- seedtable:begin -->\n" + table + "\n<!-- seedtable:end -->", s, flags=re.S)
open(dp, "w").write(s)
print(len(rows) - 2, "rows;", sum(1 for v in res.values() if v[1] == 1), "caught")
