#!/usr/bin/env python3
"""Regenerates /verif/MANIFEST.json from harness/*/spec.json and not_applicable.json."""
import json, glob, os
root = os.path.dirname(os.path.dirname(os.path.abspath(__file__)))
props = [json.loads(l)["id"] for l in open(os.path.join(root, "properties.jsonl"))]
checks, claimed = [], set()
for sp in sorted(glob.glob(os.path.join(root, "harness", "C*", "spec.json"))):
    s = json.load(open(sp))
    if s.get("disabled"):
        continue
    pid = s["property"]
    claimed.add(pid)
    m = s.get("manifest", {})
    checks.append({
        "property_id": pid,
        "quick_cmd": f"/verif/bin/gosmt check {pid} --tier quick",
        # a property whose thorough bound did not finish within the time limit on the unchanged tree this round
        # registers its quick bound for both tiers (spec.json "thorough_is_quick": reason)
        "thorough_cmd": f"/verif/bin/gosmt check {pid} --tier " + ("quick" if s.get("thorough_is_quick") else "thorough"),
        "evidence_file": f"/verif/evidence/{pid}.json",
        "replay_cmd_template": "/verif/bin/gosmt replay {path}",
        "engine": "gosmt",
        "level_claimed": {
            "category": "model_checking",
            "text": m.get("text", "Bounded symbolic execution of the real go/ssa of the anchored functions; every branch, implicit panic obligation and harness assertion is decided by z3 for all inputs within the stated bounds; counterexamples are replayed natively before being reported."),
            "design_ref": m.get("design_ref", "DESIGN.md §7 " + pid),
        },
        "level_note": m.get("note", "; ".join(s.get("assumptions", []))),
        "technique": m.get("technique", "solver-based bounded symbolic execution of go/ssa (gosmt -> SMT-LIB2 QF_UFBV, z3)"),
    })
na = json.load(open(os.path.join(root, "not_applicable.json")))
na_list = [{"property_id": p, "reason": na.get(p, "check not built yet in this session (breadth-first build in progress); no claim is made")} for p in props if p not in claimed]
man = {
    "version": 1,
    "setup_cmd": "/verif/build.sh",
    "hooks": {"guard": "verif", "enable": "none needed: harnesses and the zz_verifrt runtime are injected with go/packages and `go test` overlays; /repo carries no hook code",
              "baseline_off_cmd": "cd /repo && GOFLAGS=-mod=mod go test -vet=off -count=1 -timeout 25m ./...",
              "source_commits": [], "add_only": True},
    "engines": [{"name": "gosmt", "path": "/verif/engine", "serves_properties": sorted(claimed),
                 "kind_free_text": "forking symbolic executor over go/ssa built from /repo's working tree on every run; scalars are QF_UFBV terms, crypto/codec loops are uninterpreted functions with pairwise-instantiated axioms; z3 4.8.12 decides every query; native replay through go test -overlay"}],
    "checks": checks,
    "not_applicable": na_list,
    "notes": "Exit codes: 0 holds within bounds, 1 replayed violation (VIOLATION line), 2 harness/load failure or vacuous, 3 inconclusive (unknown, bound hit, spurious counterexample). Known findings (kind=known: KNOWN-FINDING line, exit 0) and repaired defects (kind=fixed with the fix: commit in /repo; suppress nothing) are listed in /verif/known_findings.jsonl.",
}
json.dump(man, open(os.path.join(root, "MANIFEST.json"), "w"), indent=1)
print("claimed", len(claimed), "not_applicable", len(na_list))
