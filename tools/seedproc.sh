#!/bin/bash
# seedproc.sh <PROP> <mutN> [checks...]
# Confirms a sub-agent's seeded change in its scratch worktree /tmp/wt/<PROP> (demo passes clean, change
# builds, existing suite passes, demo fails), stores it under /verif/seeded/<PROP>-<mutN>/ and runs the
# given checks (default: the property's own) against the changed worktree (VERIF_REPO, so /repo is untouched).
set -u
P=$1; M=$2; shift 2
CHECKS=${*:-$P}
WT=/tmp/wt/$P
SRC=$WT/_out/$M
DST=/verif/seeded/$P-$M
export GOFLAGS=-mod=mod GOPROXY=off
[ -f $SRC/patch.diff ] || { echo "no patch in $SRC"; exit 2; }
cd $WT || exit 2
git checkout -q -- . ; git clean -fdq -e _out
ddir=$(jq -r .demo_dir $SRC/meta.json); drun=$(jq -r .demo_run $SRC/meta.json)
log=$SRC/confirm.log; : > $log
cp $SRC/demo_test.go $ddir/zz_seed_demo_test.go
( eval "$drun" ) >>$log 2>&1; a=$?
echo "[clean+demo] exit=$a" | tee -a $log
rm -f $ddir/zz_seed_demo_test.go
git apply $SRC/patch.diff || { echo "patch does not apply"; exit 2; }
go build ./... >>$log 2>&1; b=$?
echo "[mut build] exit=$b" | tee -a $log
suite=$(/verif/tools/repotest.sh $WT 2>&1 | grep -v "repotest done" | grep -E "^(FAIL|---|panic)" | head -5)
echo "[mut suite] failures: ${suite:-none}" | tee -a $log
cp $SRC/demo_test.go $ddir/zz_seed_demo_test.go
( eval "$drun" ) >>$log 2>&1; c=$?
echo "[mut+demo] exit=$c" | tee -a $log
rm -f $ddir/zz_seed_demo_test.go
ok=no
if [ $a -eq 0 ] && [ $b -eq 0 ] && [ -z "$suite" ] && [ $c -ne 0 ]; then ok=yes; fi
echo "confirmed=$ok" | tee -a $log
res=""
if [ $ok = yes ]; then
  mkdir -p $DST
  cp $SRC/patch.diff $SRC/demo_test.go $DST/
  for C in $CHECKS; do
    out=$(mktemp -d)
    VERIF_REPO=$WT VERIF_OUT=$out timeout 1800 /verif/bin/gosmt check $C --tier quick > $out/log 2>&1; rc=$?
    v=$(grep -c "^VIOLATION" $out/log)
    echo "[check $C on mutant] exit=$rc violations=$v" | tee -a $log
    grep -E "violation|LOAD|status=" $out/log | head -6 | tee -a $log
    res="$res $C:exit$rc"
    rm -rf $out
  done
  jq --arg res "$res" --arg ran "clean+demo pass; patch applied: go build ok, existing suite (tools/repotest.sh) passes, demo fails; checks run with VERIF_REPO on the patched scratch worktree" '. + {checks_quick: $res, confirmed_by: $ran}' $SRC/meta.json > $DST/meta.json
  cp $log $DST/confirm.log
fi
git checkout -q -- . ; git clean -fdq -e _out
echo "RESULT $P-$M confirmed=$ok checks:$res"
