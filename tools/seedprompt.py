#!/usr/bin/env python3
"""seedprompt.py <id>: prints the prompt given to a fresh seeding sub-agent (development aid; not used by any
registered command). The agent sees only the property text (/tmp/wt/prop_<id>.txt, cut from properties.jsonl)
and its own scratch worktree /tmp/wt/<id>; round-2 prompts additionally listed the summaries of the changes
already collected for that property so that different mechanisms were found."""
import sys
pid=sys.argv[1]
prop=open('/tmp/wt/prop_%s.txt'%pid).read()
print(f"""You are helping test a verification effort for the Go project aperturerobotics/bifrost (a peer-to-peer networking engine). You have your own scratch git worktree of the repository at /tmp/wt/{pid} (work ONLY inside that directory; never touch /repo or /verif, and do not read anything under /verif).

Here is a semantic property that the code base is supposed to satisfy:

---
{prop}---

Your task: produce TWO independent, realistic source changes ("mut1" and "mut2") to the repository, each of which on its own BREAKS this property, while the code still compiles and the repository's existing test suite still passes. They should look like plausible developer edits (refactor gone slightly wrong, an optimisation, a "simplification", an off-by-one, a dropped or weakened check, a wrong variable, two cooperating sites that each look fine alone) - not sabotage like deleting a whole function or returning a constant. Prefer changes that need something specific to manifest (an unusual input or boundary value, a particular multi-step sequence of operations, a particular interleaving, a fault at a particular point), rather than ones any ordinary use would expose at once. The two changes should use different mechanisms / touch different logic. Change only non-test .go source files of the repository (not generated *.pb.go unless essential, not tests, not go.mod).

Environment: no network. In every shell call first run: export GOFLAGS=-mod=mod GOPROXY=off  (do NOT set GOSUMDB or GOTOOLCHAIN). `go build ./... ` and `go test -vet=off -count=1 ./...` work offline from the worktree root (the full suite takes about 1-2 minutes; run at least the packages you touched and their dependants, and run the full suite once per finished change with the helper `/tmp/wt/repotest.sh /tmp/wt/{pid}` — it prints only failing packages/tests followed by the line "repotest done"; use this helper rather than a plain `go test ./...` because other people run the same suite concurrently in other worktrees and the transport/websocket test binds a fixed TCP port, so the helper runs that one package in a private network namespace. Never use pkill/killall; kill only your own process IDs).

For each change N in {{1,2}} write into /tmp/wt/{pid}/_out/mutN/ :
  - patch.diff : `git diff` of ONLY the source change, relative to the repo root (so `git apply patch.diff` at a clean checkout applies it). Must not include the demonstration.
  - demo_test.go : a self-contained Go test file (package clause matching the package directory it must be placed in; may be an in-package test to reach unexported identifiers) that FAILS with the change applied and PASSES on the clean checkout. It must be deterministic (no sleeps-as-synchronisation if avoidable; bounded time < 60 s), and must test the property's behaviour, not the text of the code.
  - meta.json : {{"property":"{pid}","demo_dir":"<package dir relative to repo root where demo_test.go goes>","demo_run":"<go test command run from repo root, e.g. go test -vet=off -count=1 -run TestSeedDemo ./peer/>","summary":"<one or two sentences: what the change does>","needs":"<what specific input/sequence/interleaving is needed to manifest>","files_changed":[...]}}

Procedure to verify before you finish, for each change: (a) clean checkout + demo => demo passes; (b) apply change => `go build ./...` ok, full existing test suite passes (without the demo file present), demo fails. Then restore the worktree to clean (`git checkout -- . && git clean -fdq -e _out`) so that only _out/ remains as untracked content. Keep the demo file name demo_test.go in _out but when you copy it into a package dir for running, name it zz_seed_demo_test.go and delete it afterwards.

Finish with a short report: for each change, the summary, what it needs to manifest, and confirmation of (a) and (b). If you could only produce one valid change, say so.""")
