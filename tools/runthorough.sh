#!/bin/bash
# runthorough.sh <timeout_s> <ids...>: thorough tier of the given checks, each under a time limit.
T=$1; shift
cd /verif
for id in "$@"; do
  s=$(date +%s)
  timeout $T ./bin/gosmt check $id --tier thorough > /tmp/thorough_$id.log 2>&1; rc=$?
  e=$(date +%s)
  echo "$id exit=$rc wall=$((e-s))s"
done
