#!/bin/bash
# seedmatrix.sh: runs every stored seeded change against its property's quick check at /repo HEAD
# (4 scratch worktrees in parallel) and writes /verif/seeded/RESULTS.txt.
# seedmatrix.sh [regex]: only the seeds matching regex are (re-)run; their lines replace the old ones.
cd /verif
PAT=${1:-'^C[0-9]+[a-z]?-mut'}
ls seeded | grep -E '^C[0-9]+[a-z]?-mut' | grep -E "$PAT" > /tmp/seedlist.txt
rm -f /tmp/seedmatrix.*.out
run_slice() {
  i=$1
  export SEED_WT=/tmp/wt/mine$i
  n=0
  while read s; do
    n=$((n+1))
    if [ $((n % 4)) -eq $i ]; then
      c=$(echo ${s%%-*} | sed "s/[a-z]$//")
      LINES_MAX=2 ./tools/seedcheck.sh $s $c quick >> /tmp/seedmatrix.$i.out 2>&1
    fi
  done < /tmp/seedlist.txt
}
for i in 0 1 2 3; do run_slice $i & done
wait
cat /tmp/seedmatrix.*.out | grep "^\[C" | grep " vs " | sort > /tmp/seedmatrix.new
touch seeded/RESULTS.txt
( grep -v -F -f <(sed 's/ vs .*/ vs /' /tmp/seedmatrix.new) seeded/RESULTS.txt; cat /tmp/seedmatrix.new ) | sort -u > /tmp/seedmatrix.merged
cp /tmp/seedmatrix.merged seeded/RESULTS.txt
for i in 0 1 2 3; do git -C /repo worktree remove --force /tmp/wt/mine$i 2>/dev/null; done
cat seeded/RESULTS.txt
