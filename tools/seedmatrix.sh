#!/bin/bash
# seedmatrix.sh: runs every stored seeded change against its property's quick check at /repo HEAD
# (4 scratch worktrees in parallel) and writes /verif/seeded/RESULTS.txt
cd /verif
ls seeded | grep -E '^C[0-9]+-mut' > /tmp/seedlist.txt
rm -f /tmp/seedmatrix.*.out
run_slice() {
  i=$1
  export SEED_WT=/tmp/wt/mine$i
  n=0
  while read s; do
    n=$((n+1))
    if [ $((n % 4)) -eq $i ]; then
      c=$(echo ${s%%-*} | sed "s/[a-z]$//")
      LINES_MAX=2 ./tools/seedcheck.sh $s $c quick >> /tmp/seedmatrix.$i.out 2>&1
    fi
  done < /tmp/seedlist.txt
}
for i in 0 1 2 3; do run_slice $i & done
wait
cat /tmp/seedmatrix.*.out | grep "^\[C" | grep " vs " | sort > seeded/RESULTS.txt
for i in 0 1 2 3; do git -C /repo worktree remove --force /tmp/wt/mine$i 2>/dev/null; done
cat seeded/RESULTS.txt
