#!/bin/sh
# Runs the repository's test suite on a tree (default /repo), tolerating parallel runs in other
# worktrees: transport/websocket binds a fixed port, so it runs in a private network namespace.
dir=${1:-/repo}
cd "$dir" || exit 2
export GOFLAGS=-mod=mod GOPROXY=off
pk=$(go list ./... | grep -v '/transport/websocket$')
go test -vet=off -count=1 -timeout 20m $pk 2>&1 | grep -v "no test files" | grep -v "^ok " 
unshare -rn sh -c 'ip link set lo up 2>/dev/null; go test -vet=off -count=1 -timeout 5m ./transport/websocket/' 2>&1 | grep -v "^ok "
echo "repotest done"
