#!/bin/bash
# seedcheck.sh <seed-dir-name> <check> [tier]: run a check against a stored seeded change applied to the
# scratch worktree /tmp/wt/mine (never /repo).
S=$1; C=$2; T=${3:-quick}
WT=${SEED_WT:-/tmp/wt/mine}
[ -d $WT ] || git -C /repo worktree add --detach $WT HEAD >/dev/null 2>&1
git -C $WT checkout -q --detach $(git -C /repo rev-parse HEAD) 2>/dev/null
git -C $WT checkout -q -- . ; git -C $WT clean -fdq
git -C $WT apply /verif/seeded/$S/patch.diff || { echo "patch does not apply"; exit 2; }
out=$(mktemp -d)
VERIF_REPO=$WT VERIF_OUT=$out timeout 3000 /verif/bin/gosmt check $C --tier $T > $out/log 2>&1; rc=$?
echo "[$S vs $C/$T] exit=$rc violations=$(grep -c '^VIOLATION' $out/log)"
grep -E "^  violation|LOAD|INCONCL|status=" $out/log | cut -c1-260 | head -${LINES_MAX:-6}
rm -rf $out
git -C $WT checkout -q -- . ; git -C $WT clean -fdq
