#!/bin/bash
# runall.sh [tier]: runs every registered check of MANIFEST.json sequentially; prints id, exit code, wall time.
T=${1:-quick}
cd /verif
for id in $(jq -r '.checks[].property_id' MANIFEST.json); do
  s=$(date +%s)
  ./bin/gosmt check $id --tier $T > /tmp/runall_$id.log 2>&1; rc=$?
  e=$(date +%s)
  echo "$id exit=$rc wall=$((e-s))s $(grep -c '^VIOLATION' /tmp/runall_$id.log) violations $(grep -c '^KNOWN-FINDING' /tmp/runall_$id.log) known"
done
