package main

import "golang.org/x/tools/go/ssa"

func init() {
	r := func(name string, f intrinsicFn) { reg(rtPkgPath+"."+name, f) }
	bytesOf := func(in *Interp, v Value) []*Term {
		switch x := v.(type) {
		case SliceV:
			return in.sliceBytesN(x)
		case StrV:
			return x.b
		}
		in.abort("expected bytes, got %s", describe(v))
		return nil
	}
	r("BytesLess", func(in *Interp, fn *ssa.Function, args []Value, site ssa.Value) Value {
		return in.bytesLess(bytesOf(in, args[0]), bytesOf(in, args[1]), false)
	})
	// SelectBytes(c, a, b) = c ? a : b  (equal lengths), without branching
	r("SelectBytes", func(in *Interp, fn *ssa.Function, args []Value, site ssa.Value) Value {
		c := args[0].(*Term)
		a, b := bytesOf(in, args[1]), bytesOf(in, args[2])
		if len(a) != len(b) {
			in.abort("SelectBytes: length mismatch")
		}
		out := make([]*Term, len(a))
		for i := range a {
			out[i] = in.tt.Ite(c, a[i], b[i])
		}
		return in.bytesToSlice(out)
	})
	r("Ite8", func(in *Interp, fn *ssa.Function, args []Value, site ssa.Value) Value {
		return in.tt.Ite(args[0].(*Term), args[1].(*Term), args[2].(*Term))
	})
	r("IteInt", func(in *Interp, fn *ssa.Function, args []Value, site ssa.Value) Value {
		return in.tt.Ite(args[0].(*Term), args[1].(*Term), args[2].(*Term))
	})
}
