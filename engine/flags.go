package main

// stackAligned enables the (slower, see smtinc.go) push-stack mirroring of the path condition.
const stackAligned = false
