package main

import (
	"go/types"

	"golang.org/x/tools/go/ssa"
)

func init() {
	r := func(name string, f intrinsicFn) { reg(rtPkgPath+"."+name, f) }
	// OwnMethods(ifacePtr, basePtr any) int: number of methods of interface *ifacePtr that are not
	// methods of interface *basePtr (both passed as typed nil pointers to the interface types).
	r("OwnMethods", func(in *Interp, fn *ssa.Function, args []Value, site ssa.Value) Value {
		get := func(v Value) *types.Interface {
			iv, ok := v.(IfaceV)
			if !ok || iv.t == nil {
				in.abort("OwnMethods: expected typed nil pointer to interface")
			}
			pt, ok := types.Unalias(iv.t).Underlying().(*types.Pointer)
			if !ok {
				in.abort("OwnMethods: expected pointer type, got %s", iv.t)
			}
			it, ok := types.Unalias(pt.Elem()).Underlying().(*types.Interface)
			if !ok {
				in.abort("OwnMethods: %s is not an interface", pt.Elem())
			}
			return it
		}
		a, b := get(args[0]), get(args[1])
		base := map[string]bool{}
		for i := 0; i < b.NumMethods(); i++ {
			base[b.Method(i).Name()] = true
		}
		n := 0
		for i := 0; i < a.NumMethods(); i++ {
			if !base[a.Method(i).Name()] {
				n++
			}
		}
		return in.tt.Const(64, uint64(n))
	})
}
