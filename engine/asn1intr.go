package main

import (
	"fmt"
	"go/types"

	"golang.org/x/tools/go/ssa"
)

// encoding/asn1 is reflection-driven and cannot be executed; Marshal/Unmarshal are idealised as an
// inverse pair with an injective encoder over the values marshalled on the path (DESIGN.md §3.3):
//   Marshal(v)      = a fresh 12-byte string, different from every earlier encoding
//   Unmarshal(b, p) = stores a copy of v into *p when b equals the encoding of a v of p's element type
//                     (decided by the solver when b is symbolic), otherwise returns an error.
type asn1Rec struct {
	bytes []*Term
	val   Value
	typ   types.Type
}

// snapshot deep-copies a value including the contents of slices, so that later writes do not alter it.
func (in *Interp) snapshot(v Value) Value {
	switch x := v.(type) {
	case *Agg:
		if x == nil {
			return x
		}
		n := &Agg{s: make([]Value, len(x.s)), typ: x.typ}
		for i := range x.s {
			n.s[i] = in.snapshot(x.s[i])
		}
		return n
	case SliceV:
		if x.base == nil {
			return x
		}
		n := &Agg{s: make([]Value, x.len), typ: x.base.typ}
		for i := 0; i < x.len; i++ {
			n.s[i] = in.snapshot(x.base.s[x.off+i])
		}
		return SliceV{n, 0, x.len, x.len}
	}
	return v
}

func init() {
	reg("encoding/asn1.Marshal", func(in *Interp, fn *ssa.Function, args []Value, site ssa.Value) Value {
		iv, ok := args[0].(IfaceV)
		if !ok || iv.t == nil {
			in.abort("asn1.Marshal of nil")
		}
		recs, _ := in.side["asn1"].([]asn1Rec)
		k := len(recs)
		b := make([]*Term, 12)
		for i := range b {
			b[i] = in.tt.Var(fmt.Sprintf("asn1!%d[%d]", k, i), 8)
		}
		for _, r := range recs {
			in.assume(in.tt.Not(in.bytesEq(b, r.bytes)))
		}
		recs = append(recs, asn1Rec{bytes: b, val: in.snapshot(iv.v), typ: iv.t})
		in.side["asn1"] = recs
		return TupleV{in.bytesToSlice(b), IfaceV{}}
	})
	reg("encoding/asn1.Unmarshal", func(in *Interp, fn *ssa.Function, args []Value, site ssa.Value) Value {
		data := in.sliceBytesN(args[0].(SliceV))
		iv, ok := args[1].(IfaceV)
		if !ok || iv.t == nil {
			in.abort("asn1.Unmarshal into nil")
		}
		pt, ok := types.Unalias(iv.t).Underlying().(*types.Pointer)
		if !ok {
			in.abort("asn1.Unmarshal into non-pointer %s", iv.t)
		}
		recs, _ := in.side["asn1"].([]asn1Rec)
		for _, r := range recs {
			if !types.Identical(r.typ, pt.Elem()) || len(r.bytes) != len(data) {
				continue
			}
			if in.decide(in.bytesEq(data, r.bytes)) {
				in.store(iv.v.(PtrV), in.snapshot(r.val))
				return TupleV{SliceV{}, IfaceV{}}
			}
		}
		return TupleV{SliceV{}, in.newError("asn1: structure error (model: not an encoding produced on this path)")}
	})
}
