package main

import (
	"encoding/json"
	"flag"
	"fmt"
	"go/ast"
	"go/parser"
	"go/token"
	"os"
	"os/exec"
	"path/filepath"
	"runtime"
	"sort"
	"strings"
	"sync"
	"time"

	"golang.org/x/tools/go/packages"
	"golang.org/x/tools/go/ssa"
	"golang.org/x/tools/go/ssa/ssautil"
)

// repoDir is the tree under verification. Registered commands always use /repo; VERIF_REPO points the
// engine at a scratch worktree (development aid for evaluating seeded changes), in which case evidence
// and replays go to outDir (VERIF_OUT) instead of /verif.
var repoDir = "/repo"

var verifDir = "/verif"

// outDir receives evidence/ and replays/.
var outDir = ""

// loadWorld loads package pattern pkg of /repo with the harness files overlaid into it.
func loadWorld(pkgPattern string, harnessFiles []string) (*World, *ssa.Package, error) {
	overlay := map[string][]byte{}
	rtSrc, err := os.ReadFile(filepath.Join(verifDir, "rt", "rt.go"))
	if err != nil {
		return nil, nil, err
	}
	overlay[filepath.Join(repoDir, "zz_verifrt", "rt.go")] = rtSrc
	rtFiles, err := rtFilesFor(pkgPattern)
	if err != nil {
		return nil, nil, err
	}
	for _, f := range rtFiles {
		if ms, err := os.ReadFile(f); err == nil {
			overlay[filepath.Join(repoDir, "zz_verifrt", filepath.Base(f))] = ms
		}
	}
	pkgDir := filepath.Join(repoDir, strings.TrimPrefix(pkgPattern, "./"))
	for _, hf := range harnessFiles {
		src, err := os.ReadFile(hf)
		if err != nil {
			return nil, nil, err
		}
		overlay[filepath.Join(pkgDir, "zz_verif_"+filepath.Base(hf))] = src
	}
	cfg := &packages.Config{
		Mode:    packages.LoadAllSyntax,
		Dir:     repoDir,
		Overlay: overlay,
		Env:     append(os.Environ(), "GOFLAGS=-mod=mod", "GOPROXY=off", "GOTOOLCHAIN=auto"),
	}
	pkgs, err := packages.Load(cfg, pkgPattern)
	if err != nil {
		return nil, nil, err
	}
	var errs []string
	packages.Visit(pkgs, nil, func(p *packages.Package) {
		for _, e := range p.Errors {
			errs = append(errs, e.Error())
		}
	})
	if len(errs) > 0 {
		if len(errs) > 12 {
			errs = errs[:12]
		}
		return nil, nil, fmt.Errorf("load errors:\n%s", strings.Join(errs, "\n"))
	}
	prog, spkgs := ssautil.AllPackages(pkgs, ssa.InstantiateGenerics)
	prog.Build()
	w := &World{prog: prog, infos: map[*ssa.Function]*fnInfo{}, modelFn: map[string]*ssa.Function{}}
	var target *ssa.Package
	for i, p := range pkgs {
		if spkgs[i] != nil && p.PkgPath != "" && target == nil {
			target = spkgs[i]
		}
	}
	optSeen := map[string]bool{}
	// register Go-source models: functions in zz_verifrt carrying a "//gosmt:model <target>" comment
	var rtSyntax *packages.Package
	packages.Visit(pkgs, nil, func(p *packages.Package) {
		if p.PkgPath == rtPkgPath {
			rtSyntax = p
		}
	})
	if rtSyntax != nil {
		rtSSA := prog.Package(rtSyntax.Types)
		for _, f := range rtSyntax.Syntax {
			for _, d := range f.Decls {
				fd, ok := d.(*ast.FuncDecl)
				if !ok || fd.Doc == nil || fd.Recv != nil {
					continue
				}
				for _, c := range fd.Doc.List {
					if i := strings.Index(c.Text, "gosmt:model "); i >= 0 {
						tgt := strings.TrimSpace(c.Text[i+len("gosmt:model "):])
						if fn := rtSSA.Func(fd.Name.Name); fn != nil {
							w.modelFn[tgt] = fn
						}
					}
					if i := strings.Index(c.Text, "gosmt:model-opt "); i >= 0 {
						parts := strings.Fields(c.Text[i+len("gosmt:model-opt "):])
						if len(parts) == 2 && optModels[parts[0]] {
							if fn := rtSSA.Func(fd.Name.Name); fn != nil {
								w.modelFn[parts[1]] = fn
								optSeen[parts[0]] = true
							}
						}
					}
				}
			}
		}
	}
	for tag, on := range optModels {
		if on && !optSeen[tag] {
			return nil, nil, fmt.Errorf("optional model %q requested for %s but no rt file providing it could be loaded there", tag, pkgPattern)
		}
	}
	return w, target, nil
}

const repoModPath = "github.com/aperturerobotics/bifrost"

var (
	rtDepsMu    sync.Mutex
	rtDepsCache = map[string]map[string]bool{}
)

// repoDeps returns the transitive import closure (including itself) of a package of /repo.
func repoDeps(importPath string) (map[string]bool, error) {
	rtDepsMu.Lock()
	defer rtDepsMu.Unlock()
	if d, ok := rtDepsCache[importPath]; ok {
		return d, nil
	}
	cmd := exec.Command("go", "list", "-deps", importPath)
	cmd.Dir = repoDir
	env := []string{}
	for _, e := range os.Environ() {
		if strings.HasPrefix(e, "GOTOOLCHAIN=") || strings.HasPrefix(e, "GOFLAGS=") || strings.HasPrefix(e, "GOSUMDB=") {
			continue
		}
		env = append(env, e)
	}
	cmd.Env = append(env, "GOFLAGS=-mod=mod", "GOPROXY=off", "GOTOOLCHAIN=auto")
	out, err := cmd.Output()
	if err != nil {
		return nil, fmt.Errorf("go list -deps %s: %v", importPath, err)
	}
	d := map[string]bool{}
	for _, ln := range strings.Split(string(out), "\n") {
		if ln = strings.TrimSpace(ln); ln != "" {
			d[ln] = true
		}
	}
	rtDepsCache[importPath] = d
	return d, nil
}

// rtFilesFor lists the files of /verif/rt that make up the virtual package zz_verifrt when harnesses
// are injected into package pkgPattern of /repo. A harness imports zz_verifrt, so an rt file that
// itself imports a package of /repo (only optional models do) must be left out when the harness's
// package is that package or one of its dependencies - otherwise the overlay closes an import cycle.
func rtFilesFor(pkgPattern string) ([]string, error) {
	all, _ := filepath.Glob(filepath.Join(verifDir, "rt", "*.go"))
	sort.Strings(all)
	target := repoModPath + strings.TrimPrefix(pkgPattern, ".")
	var files []string
	for _, f := range all {
		pf, err := parser.ParseFile(token.NewFileSet(), f, nil, parser.ImportsOnly)
		if err != nil {
			return nil, err
		}
		skip := false
		for _, im := range pf.Imports {
			ip := strings.Trim(im.Path.Value, "\"`")
			if ip != repoModPath && !strings.HasPrefix(ip, repoModPath+"/") {
				continue
			}
			deps, err := repoDeps(ip)
			if err != nil {
				return nil, err
			}
			if deps[target] {
				skip = true
			}
		}
		if skip {
			if filepath.Base(f) == "rt.go" {
				return nil, fmt.Errorf("rt.go must not import packages of %s", repoModPath)
			}
			continue
		}
		files = append(files, f)
	}
	return files, nil
}

// optModels is the set of optional model tags ("gosmt:model-opt <tag> <target>") enabled for the
// package group being loaded (GroupSpec.Models).
var optModels = map[string]bool{}

type EntryCfg struct {
	Name     string `json:"name"`
	Unwind   int    `json:"unwind,omitempty"`
	MaxPaths int    `json:"max_paths,omitempty"`
	Preempt  int    `json:"preempt,omitempty"`
	ConcCap  int    `json:"conc_cap,omitempty"`
	Tiers    string `json:"tiers,omitempty"` // "", "quick", "thorough"
	TimeoutS int    `json:"timeout_s,omitempty"`
}

func defaultCfg() Config {
	return Config{Unwind: 64, MaxSteps: 200_000_000, Workers: runtime.NumCPU(), Solver: "z3", TimeoutMs: 20000, ConcCap: 64, Known: map[string]KnownEntry{}}
}

func cmdRun(args []string) int {
	fs := flag.NewFlagSet("run", flag.ExitOnError)
	pkg := fs.String("pkg", "./peer", "package pattern relative to /repo")
	harness := fs.String("harness", "", "comma-separated harness files")
	entry := fs.String("entry", "", "entry function")
	workers := fs.Int("workers", runtime.NumCPU(), "workers")
	unwind := fs.Int("unwind", 64, "unwind bound")
	tier := fs.Int("tier", 0, "0 quick, 1 thorough")
	verbose := fs.Bool("v", false, "verbose")
	solver := fs.String("solver", "z3", "solver")
	maxPaths := fs.Int("maxpaths", 0, "max paths")
	preempt := fs.Int("preempt", 0, "preemption bound")
	models := fs.String("models", "", "comma-separated optional model tags")
	fs.Parse(args)
	t0 := time.Now()
	for _, m := range strings.Split(*models, ",") {
		if m != "" {
			optModels[m] = true
		}
	}
	w, tp, err := loadWorld(*pkg, strings.Split(*harness, ","))
	if err != nil {
		fmt.Fprintln(os.Stderr, err)
		return 2
	}
	fmt.Fprintf(os.Stderr, "loaded in %.1fs\n", time.Since(t0).Seconds())
	fn := tp.Func(*entry)
	if fn == nil {
		fmt.Fprintf(os.Stderr, "entry %s not found in %s\n", *entry, tp.Pkg.Path())
		return 2
	}
	cfg := defaultCfg()
	cfg.Workers = *workers
	cfg.Unwind = *unwind
	cfg.Verbose = *verbose
	cfg.Solver = *solver
	cfg.MaxPaths = *maxPaths
	cfg.Preempt = *preempt
	cfg.Known = loadKnown()
	ex := NewExplorer(w, fn, cfg)
	ex.tier = *tier
	res := ex.Run()
	printResult(res)
	return 0
}

func printResult(res *Result) {
	fmt.Printf("entry %s: paths=%d kinds=%v queries=%d (sat %d unsat %d unknown %d err %d) solver=%.1fs wall=%.1fs steps=%d\n",
		res.Entry, res.Paths, res.PathKinds, res.Queries, res.Sat, res.Unsat, res.Unknown, res.SolverErr, res.SolverWall.Seconds(), res.Wall.Seconds(), res.Steps)
	for k, n := range res.Aborts {
		fmt.Printf("  ABORT x%d: %s\n", n, k)
	}
	for k, n := range res.Bounds {
		fmt.Printf("  BOUND x%d: %s\n", n, k)
	}
	var rk []string
	for k := range res.Reach {
		rk = append(rk, k)
	}
	sort.Strings(rk)
	for _, k := range rk {
		fmt.Printf("  reach %s: %d\n", k, res.Reach[k])
	}
	for k, n := range res.Asserts {
		fmt.Printf("  assert %s: evaluated on %d paths (%d symbolic)\n", k, n, res.AssertSym[k])
	}
	for k, n := range res.Notes {
		fmt.Printf("  note x%d: %s\n", n, k)
	}
	for k, n := range res.VioCount {
		fmt.Printf("  VIOLATION-KEY x%d: %s\n", n, k)
	}
	for _, v := range res.Violations {
		b, _ := json.Marshal(v.Inputs)
		fmt.Printf("  violation %s @%s known=%q: %s\n    inputs=%s\n", v.Label, v.Site, v.Known, v.Msg, b)
	}
	if res.LastSolverErr != "" {
		fmt.Printf("  last solver error: %s\n", res.LastSolverErr)
	}
}

func loadKnown() map[string]KnownEntry {
	out := map[string]KnownEntry{}
	kf := filepath.Join(verifDir, "known_findings.jsonl")
	if v := os.Getenv("VERIF_KNOWN_FILE"); v != "" {
		kf = v // development: run a check against another (e.g. empty) known-findings file
	}
	data, err := os.ReadFile(kf)
	if err != nil {
		return out
	}
	for _, ln := range strings.Split(string(data), "\n") {
		ln = strings.TrimSpace(ln)
		if ln == "" || strings.HasPrefix(ln, "#") {
			continue
		}
		var ke KnownEntry
		if err := json.Unmarshal([]byte(ln), &ke); err != nil {
			fmt.Fprintln(os.Stderr, "known_findings.jsonl: bad line:", err)
			continue
		}
		if ke.Kind == "known" {
			out[ke.ID] = ke
		}
	}
	return out
}

func main() {
	if v := os.Getenv("VERIF_DIR"); v != "" {
		verifDir = v
	}
	outDir = verifDir
	if v := os.Getenv("VERIF_REPO"); v != "" && v != repoDir {
		repoDir = filepath.Clean(v)
		outDir = os.Getenv("VERIF_OUT")
		if outDir == "" {
			d, err := os.MkdirTemp("", "gosmt-out-")
			if err != nil {
				fmt.Fprintln(os.Stderr, err)
				os.Exit(2)
			}
			outDir = d
		}
	}
	if len(os.Args) < 2 {
		fmt.Fprintln(os.Stderr, "usage: gosmt run|check ...")
		os.Exit(2)
	}
	switch os.Args[1] {
	case "run":
		os.Exit(cmdRun(os.Args[2:]))
	case "check":
		os.Exit(cmdCheck(os.Args[2:]))
	case "selftest":
		os.Exit(cmdSelftest(os.Args[2:]))
	default:
		fmt.Fprintln(os.Stderr, "unknown command", os.Args[1])
		os.Exit(2)
	}
}
