module gosmt

go 1.26.8

require golang.org/x/tools v0.50.0

require (
	golang.org/x/mod v0.41.0 // indirect
	golang.org/x/sync v0.23.0 // indirect
)

require (
	github.com/mr-tron/base58 v1.3.0
	github.com/zeebo/blake3 v0.2.4
)

require github.com/klauspost/cpuid/v2 v2.2.10
