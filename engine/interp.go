package main

import (
	"fmt"
	"go/constant"
	"go/token"
	"go/types"
	"sort"
	"strings"
	"sync"

	"golang.org/x/tools/go/ssa"
)

// World is the read-only program shared by all workers.
type World struct {
	prog    *ssa.Program
	pkgs    []*ssa.Package
	infoMu  sync.Mutex
	infos   map[*ssa.Function]*fnInfo
	rtPath  string // import path of zz_verifrt
	modelFn map[string]*ssa.Function
	msMu    sync.Mutex
}

type fnInfo struct {
	idx   map[ssa.Value]int
	nregs int
}

func (w *World) info(fn *ssa.Function) *fnInfo {
	w.infoMu.Lock()
	defer w.infoMu.Unlock()
	if fi, ok := w.infos[fn]; ok {
		return fi
	}
	fi := &fnInfo{idx: map[ssa.Value]int{}}
	n := 0
	for _, p := range fn.Params {
		fi.idx[p] = n
		n++
	}
	for _, p := range fn.FreeVars {
		fi.idx[p] = n
		n++
	}
	for _, b := range fn.Blocks {
		for _, ins := range b.Instrs {
			if v, ok := ins.(ssa.Value); ok {
				fi.idx[v] = n
				n++
			}
		}
	}
	fi.nregs = n
	w.infos[fn] = fi
	return fi
}

type retAction int

const (
	retToCaller retAction = iota
	retDiscard            // result dropped (go statement root, RunDefers, panic unwinding)
	retSync               // callSync marker: result stored in frame.syncResult
)

type deferred struct {
	fn   *FuncV
	args []Value
	// builtin / intrinsic defer
	call *ssa.CallCommon
}

type Frame struct {
	fn     *ssa.Function
	info   *fnInfo
	regs   []Value
	block  *ssa.BasicBlock
	prev   *ssa.BasicBlock
	ip     int
	defers []deferred
	ret    retAction
	site   ssa.Value // caller's call instruction value (retToCaller)
	caller *Frame
	// panic handling
	unwinding  bool // this frame is running its defers because of a panic
	pendingPanic *panicState
	recovered  bool
	syncResult Value
	syncDone   bool
	branchCnt  map[ssa.Instruction]int
	isDeferCall bool // frame is a deferred call invoked by runtime (recover allowed)
}

type panicState struct {
	val      Value
	desc     string
	runtime  bool
	site     string
}

const (
	gRunnable = iota
	gBlocked
	gDone
)

type G struct {
	id        int
	name      string
	stack     []*Frame
	status    int
	waitReady func() bool
	waitDesc  string
	waits     []waitCase
	delivered *delivery
	unwind    *panicState
	diedPanic *panicState
	isMain    bool
	waitQuiesce bool
	quiesced  bool
	skipSched bool
}

type waitCase struct {
	ch   *ChanObj
	send bool
	val  Value
	idx  int
}

type delivery struct {
	idx int
	val Value
	ok  bool
}

// pathEnd is thrown (Go panic) to terminate the current path.
type pathEnd struct {
	kind string // "done", "infeasible", "abort", "bound", "deadlock"
	msg  string
}

type Interp struct {
	w   *World
	tt  *TermTable
	ex  *Explorer
	sol *Solver

	// per-path
	pc        []*Term
	axioms    []*Term
	prefix64    []int64
	decisions64 []int64
	sched       []string
	reached     map[string]bool
	asserted    map[string]bool
	stubsUsed   map[string]bool
	yielded     bool
	freeSwitch  bool
	signs       []*signApp
	verifies    []*verifyApp
	nverify     int
	nufapp      int
	seals       []*sealApp
	opens       []*openApp
	unwindOverride int
	mapOrder    bool
	gs        []*G
	cur       *G
	globals   map[*ssa.Global]PtrV
	inited    map[*ssa.Package]bool
	consts    map[*ssa.Const]Value
	lenient   int
	nalloc    int
	steps     int64
	inputs    []inputRec
	ninput    map[string]int
	ufApps    map[string][]*ufApp
	side      map[interface{}]interface{} // side tables for models (mutex state etc.)
	pathNotes []string
	knownActive []string
	preempt   int
	logs      map[string][]Value
	syncDepth int
	allocLimit int64
	expectPanic bool
	opaqueN   int
	lastSite  string
}

type inputRec struct {
	tag   string
	kind  string // "int","bytes","choice"
	w     int
	terms []*Term // symbolic byte/int terms
	n     int     // length or concrete choice
}

func (in *Interp) abort(f string, args ...interface{}) {
	msg := fmt.Sprintf(f, args...)
	if in.cur != nil && len(in.cur.stack) > 0 {
		fr := in.cur.stack[len(in.cur.stack)-1]
		msg += " [in " + fr.fn.String() + " @ " + in.posOf(fr) + "]"
	}
	panic(pathEnd{"abort", msg})
}

func (in *Interp) posOf(fr *Frame) string {
	if fr.block != nil && fr.ip < len(fr.block.Instrs) {
		p := fr.block.Instrs[fr.ip].Pos()
		if p.IsValid() {
			pos := in.w.prog.Fset.Position(p)
			return fmt.Sprintf("%s:%d", shortFile(pos.Filename), pos.Line)
		}
	}
	// search backwards for a position
	if fr.block != nil {
		for i := fr.ip; i >= 0 && i < len(fr.block.Instrs); i-- {
			p := fr.block.Instrs[i].Pos()
			if p.IsValid() {
				pos := in.w.prog.Fset.Position(p)
				return fmt.Sprintf("%s:%d", shortFile(pos.Filename), pos.Line)
			}
		}
	}
	return "?"
}

func shortFile(f string) string {
	if strings.HasPrefix(f, repoDir+"/") {
		return f[len(repoDir)+1:]
	}
	if i := strings.LastIndex(f, "/pkg/mod/"); i >= 0 {
		return f[i+9:]
	}
	if i := strings.LastIndex(f, "/src/"); i >= 0 {
		return f[i+5:]
	}
	return f
}

func (in *Interp) top() *Frame { return in.cur.stack[len(in.cur.stack)-1] }

// ---------------------------------------------------------------- operands

func (in *Interp) get(fr *Frame, v ssa.Value) Value {
	switch x := v.(type) {
	case *ssa.Const:
		return in.constVal(x)
	case *ssa.Global:
		return in.globalPtr(x)
	case *ssa.Function:
		return &FuncV{fn: x}
	case *ssa.Builtin:
		in.abort("builtin used as value: %s", x.Name())
	}
	i, ok := fr.info.idx[v]
	if !ok {
		in.abort("no register for %s (%T) in %s", v.Name(), v, fr.fn)
	}
	return fr.regs[i]
}

func (in *Interp) set(fr *Frame, v ssa.Value, val Value) {
	fr.regs[fr.info.idx[v]] = val
}

func (in *Interp) constVal(c *ssa.Const) Value {
	if v, ok := in.consts[c]; ok {
		return v
	}
	var out Value
	t := c.Type()
	if c.Value == nil {
		if tp, ok := t.(*types.TypeParam); ok {
			in.abort("const of type parameter %s", tp)
		}
		out = in.zero(t)
	} else {
		u := types.Unalias(t).Underlying()
		switch b := u.(type) {
		case *types.Basic:
			switch {
			case b.Info()&types.IsString != 0:
				out = in.strConst(constant.StringVal(c.Value))
			case b.Info()&types.IsBoolean != 0:
				out = in.tt.Bool(constant.BoolVal(c.Value))
			case b.Info()&types.IsFloat != 0:
				f, _ := constant.Float64Val(constant.ToFloat(c.Value))
				out = FloatV(f)
			case b.Info()&types.IsInteger != 0:
				w, _, _ := intInfo(b)
				iv := constant.ToInt(c.Value)
				if u64, ok := constant.Uint64Val(iv); ok {
					out = in.tt.Const(w, u64)
				} else if i64, ok := constant.Int64Val(iv); ok {
					out = in.tt.Const(w, uint64(i64))
				} else {
					in.abort("const out of range: %s", c)
				}
			default:
				in.abort("unsupported const %s of %s", c, t)
			}
		default:
			in.abort("unsupported const %s of %s", c, t)
		}
	}
	in.consts[c] = out
	return out
}

func (in *Interp) globalPtr(g *ssa.Global) PtrV {
	if p, ok := in.globals[g]; ok {
		return p
	}
	// allocate all storage first so init sees zero values
	elem := g.Type().(*types.Pointer).Elem()
	p := in.newBox(elem)
	in.globals[g] = p
	if g.Pkg != nil {
		in.ensureInit(g.Pkg)
	}
	return p
}

func (in *Interp) ensureInit(pkg *ssa.Package) {
	if in.inited[pkg] {
		return
	}
	in.inited[pkg] = true
	initFn := pkg.Func("init")
	if initFn == nil || initFn.Blocks == nil {
		return
	}
	in.lenient++
	savedPC := len(in.pc)
	func() {
		defer func() {
			if r := recover(); r != nil {
				if pe, ok := r.(pathEnd); ok && (pe.kind == "abort" || pe.kind == "initpanic") {
					in.pathNotes = append(in.pathNotes, "init of "+pkg.Pkg.Path()+" incomplete: "+pe.msg)
					return
				}
				panic(r)
			}
		}()
		in.callSync(&FuncV{fn: initFn}, nil)
	}()
	_ = savedPC
	in.lenient--
}

// ---------------------------------------------------------------- calls

func (in *Interp) pushFrame(g *G, fn *ssa.Function, args []Value, env []Value, ret retAction, site ssa.Value) *Frame {
	if fn.Blocks == nil {
		in.abort("call of function without body: %s", fn)
	}
	if len(g.stack) > 400 {
		panic(pathEnd{"bound", "call depth > 400 in " + fn.String()})
	}
	fi := in.w.info(fn)
	fr := &Frame{fn: fn, info: fi, regs: make([]Value, fi.nregs), block: fn.Blocks[0], ret: ret, site: site}
	if len(args) != len(fn.Params) {
		in.abort("arity mismatch calling %s: %d args for %d params", fn, len(args), len(fn.Params))
	}
	for i, p := range fn.Params {
		fr.regs[fi.idx[p]] = args[i]
	}
	for i, p := range fn.FreeVars {
		if i >= len(env) {
			in.abort("missing free var %d for %s", i, fn)
		}
		fr.regs[fi.idx[p]] = env[i]
	}
	if len(g.stack) > 0 {
		fr.caller = g.stack[len(g.stack)-1]
	}
	g.stack = append(g.stack, fr)
	return fr
}

// callSync runs fn to completion on the current goroutine and returns its result.
func (in *Interp) callSync(f *FuncV, args []Value) Value {
	if f.nat != nil {
		return f.nat(in, args)
	}
	g := in.cur
	if g == nil {
		g = &G{id: -1, name: "init"}
		in.cur = g
		defer func() { in.cur = nil }()
	}
	if v, handled := in.tryIntrinsic(f.fn, args, nil); handled {
		return v
	}
	depth := len(g.stack)
	fr := in.pushFrame(g, f.fn, args, f.env, retSync, nil)
	in.syncDepth++
	for !fr.syncDone {
		if g.status != gRunnable {
			in.abort("blocking operation inside synchronous callback %s: %s", f.fn, g.waitDesc)
		}
		if len(g.stack) <= depth {
			// frame was unwound by a panic
			in.syncDepth--
			if g.unwind != nil && in.lenient > 0 {
				g.unwind = nil
				panic(pathEnd{"initpanic", "panic during init"})
			}
			in.abort("synchronous callback %s unwound by panic", f.fn)
		}
		in.step(g)
	}
	in.syncDepth--
	return fr.syncResult
}

func fnKey(fn *ssa.Function) string {
	if o := fn.Origin(); o != nil {
		return o.String()
	}
	return fn.String()
}

// doCall performs a call from instruction `site` (nil for go/defer). Returns (result, pushed).
// If pushed, a frame was pushed and the result arrives on return.
func (in *Interp) doCall(g *G, fr *Frame, cc *ssa.CallCommon, ret retAction, site ssa.Value) (Value, bool) {
	var args []Value
	var fn *ssa.Function
	var env []Value
	if cc.IsInvoke() {
		recv := in.get(fr, cc.Value)
		iv, ok := recv.(IfaceV)
		if !ok {
			in.abort("invoke on non-interface %s", describe(recv))
		}
		if iv.t == nil {
			in.goPanic("nil pointer dereference (method call on nil interface " + cc.Method.Name() + ")")
			return nil, true
		}
		if op, isOp := iv.v.(*Opaque); isOp {
			for _, a := range cc.Args {
				args = append(args, in.get(fr, a))
			}
			return in.opaqueMethod(op, cc.Method, args), false
		}
		fn = in.lookupMethod(iv.t, cc.Method)
		if fn == nil {
			in.abort("no method %s on %s", cc.Method.Name(), iv.t)
		}
		args = append(args, iv.v)
	} else if b, ok := cc.Value.(*ssa.Builtin); ok {
		for _, a := range cc.Args {
			args = append(args, in.get(fr, a))
		}
		return in.builtin(fr, b, cc, args), false
	} else if sf := cc.StaticCallee(); sf != nil {
		fn = sf
		if mc, ok := cc.Value.(*ssa.MakeClosure); ok {
			for _, b := range mc.Bindings {
				env = append(env, in.get(fr, b))
			}
		}
	} else {
		fv, ok := in.get(fr, cc.Value).(*FuncV)
		if !ok {
			in.abort("call of non-function value %s", describe(in.get(fr, cc.Value)))
		}
		if fv == nil {
			in.goPanic("nil func call")
			return nil, true
		}
		if fv.nat != nil {
			for _, a := range cc.Args {
				args = append(args, in.get(fr, a))
			}
			return fv.nat(in, args), false
		}
		fn = fv.fn
		env = fv.env
	}
	for _, a := range cc.Args {
		args = append(args, in.get(fr, a))
	}
	return in.callFn(g, fn, args, env, ret, site)
}

func (in *Interp) callFn(g *G, fn *ssa.Function, args []Value, env []Value, ret retAction, site ssa.Value) (Value, bool) {
	in.lastSite = fn.String()
	if m, ok := in.w.modelFn[fnKey(fn)]; ok && !in.callerIsModel(g) {
		in.noteStub("model:" + fnKey(fn))
		fn = m
		env = nil
	}
	if fnKey(fn) == "(*sync.Once).Do" && len(args) == 2 {
		// the callback runs as an ordinary frame of the calling goroutine, so it may block (a callback
		// that takes a mutex); a concurrent second Do returns at once instead of waiting for the first
		// to finish (simplification: the callbacks in the encoded code only guard a release path)
		if fv, ok := args[1].(*FuncV); ok && fv != nil && fv.nat == nil && fv.fn != nil && fv.fn.Blocks != nil {
			if p, ok := args[0].(PtrV); ok {
				st, _ := in.side[p].(*onceAsync)
				if st == nil {
					st = &onceAsync{}
					in.side[p] = st
				}
				if st.done {
					return nil, false
				}
				st.done = true
				in.noteStub("(*sync.Once).Do")
				in.pushFrame(g, fv.fn, nil, fv.env, ret, site)
				return nil, true
			}
		}
	}
	if v, handled := in.tryIntrinsic(fn, args, site); handled {
		if g.status == gBlocked || g.unwind != nil || in.yielded {
			in.yielded = false
			return nil, true
		}
		return v, false
	}
	if fn.Blocks == nil {
		if in.lenient > 0 {
			return in.opaqueResult(fn), false
		}
		in.abort("unmodelled call: %s (no body)", fn)
	}
	if in.lenient > 0 && isPkgInit(fn) {
		return nil, false
	}
	in.pushFrame(g, fn, args, env, ret, site)
	return nil, true
}

type onceAsync struct{ done bool }

func (in *Interp) callerIsModel(g *G) bool {
	if g == nil || len(g.stack) == 0 {
		return false
	}
	fn := g.stack[len(g.stack)-1].fn
	for fn.Parent() != nil {
		fn = fn.Parent()
	}
	return fn.Pkg != nil && fn.Pkg.Pkg.Path() == rtPkgPath && strings.HasPrefix(fn.Name(), "Model_")
}

func isPkgInit(fn *ssa.Function) bool {
	return fn.Name() == "init" && fn.Synthetic != "" && fn.Signature.Recv() == nil
}

func (in *Interp) opaqueResult(fn *ssa.Function) Value {
	res := fn.Signature.Results()
	mk := func(t types.Type) Value {
		switch types.Unalias(t).Underlying().(type) {
		case *types.Interface:
			if t.String() == "error" {
				return IfaceV{}
			}
		}
		return in.zeroOrOpaque(t, "init:"+fn.String())
	}
	switch res.Len() {
	case 0:
		return nil
	case 1:
		return mk(res.At(0).Type())
	}
	tv := make(TupleV, res.Len())
	for i := range tv {
		tv[i] = mk(res.At(i).Type())
	}
	return tv
}

func (in *Interp) newOpaque(t types.Type, tag string) *Opaque {
	in.opaqueN++
	return &Opaque{id: in.opaqueN, typ: t, tag: tag}
}

func (in *Interp) zeroOrOpaque(t types.Type, tag string) Value {
	switch types.Unalias(t).Underlying().(type) {
	case *types.Pointer:
		a := &Agg{s: []Value{in.newOpaque(t, tag)}}
		return PtrV{base: a}
	case *types.Interface:
		return IfaceV{t: t, v: in.newOpaque(t, tag)}
	}
	return in.zero(t)
}

func (in *Interp) lookupMethod(t types.Type, m *types.Func) *ssa.Function {
	in.w.msMu.Lock()
	defer in.w.msMu.Unlock()
	return in.w.prog.LookupMethod(t, m.Pkg(), m.Name())
}

func (in *Interp) methodByName(t types.Type, name string) *ssa.Function {
	in.w.msMu.Lock()
	defer in.w.msMu.Unlock()
	ms := in.w.prog.MethodSets.MethodSet(t)
	for i := 0; i < ms.Len(); i++ {
		sel := ms.At(i)
		if sel.Obj().Name() == name {
			return in.w.prog.MethodValue(sel)
		}
	}
	return nil
}

// returnFrom pops the top frame of g, delivering result.
func (in *Interp) returnFrom(g *G, result Value) {
	fr := g.stack[len(g.stack)-1]
	g.stack = g.stack[:len(g.stack)-1]
	switch fr.ret {
	case retSync:
		fr.syncResult = result
		fr.syncDone = true
		return
	case retToCaller:
		if len(g.stack) == 0 {
			in.abort("return to empty stack")
		}
		caller := g.stack[len(g.stack)-1]
		if fr.site != nil {
			in.set(caller, fr.site, result)
		}
		caller.ip++
	case retDiscard:
		// caller (if any) re-executes its current instruction (RunDefers) or continues unwinding
	}
	if len(g.stack) == 0 {
		g.status = gDone
	}
}

// ---------------------------------------------------------------- panics

func (in *Interp) goPanic(desc string) {
	site := ""
	if in.cur != nil && len(in.cur.stack) > 0 {
		fr := in.top()
		site = fr.fn.String() + "@" + in.posOf(fr)
	}
	in.raise(&panicState{desc: desc, runtime: true, site: site, val: IfaceV{t: runtimeErrorType{}.T(), v: in.strConst(desc)}})
}

// runtimeErrorType is a placeholder dynamic type for runtime panics.
type runtimeErrorType struct{}

var rtErrType = types.NewNamed(types.NewTypeName(token.NoPos, nil, "runtime.Error(gosmt)", nil), types.Typ[types.String], nil)

func (runtimeErrorType) T() types.Type { return rtErrType }

func (in *Interp) raise(ps *panicState) {
	g := in.cur
	g.unwind = ps
	g.status = gRunnable
}

// unwindStep advances panic unwinding by one action.
func (in *Interp) unwindStep(g *G) {
	if len(g.stack) == 0 {
		g.diedPanic = g.unwind
		g.unwind = nil
		g.status = gDone
		return
	}
	fr := g.stack[len(g.stack)-1]
	if len(fr.defers) > 0 {
		d := fr.defers[len(fr.defers)-1]
		fr.defers = fr.defers[:len(fr.defers)-1]
		fr.unwinding = true
		fr.recovered = false
		fr.pendingPanic = g.unwind
		g.unwind = nil
		in.runDeferred(g, fr, d)
		return
	}
	// no more defers in this frame: pop it
	g.stack = g.stack[:len(g.stack)-1]
	if len(g.stack) == 0 {
		g.diedPanic = g.unwind
		g.unwind = nil
		g.status = gDone
	}
}

func (in *Interp) runDeferred(g *G, fr *Frame, d deferred) {
	if d.call != nil {
		// builtin defer
		in.builtinDeferred(fr, d)
		return
	}
	if d.fn == nil {
		in.goPanic("nil deferred func")
		return
	}
	if d.fn.nat != nil {
		d.fn.nat(in, d.args)
		return
	}
	if _, handled := in.tryIntrinsic(d.fn.fn, d.args, nil); handled {
		return
	}
	nf := in.pushFrame(g, d.fn.fn, d.args, d.fn.env, retDiscard, nil)
	nf.isDeferCall = true
}

// afterRecovered: the panic was recovered by a deferred call of frame fr.
func (in *Interp) finishRecovered(g *G, fr *Frame) {
	// run remaining defers normally, then return via Recover block
	if len(fr.defers) > 0 {
		d := fr.defers[len(fr.defers)-1]
		fr.defers = fr.defers[:len(fr.defers)-1]
		in.runDeferred(g, fr, d)
		return
	}
	fr.unwinding = false
	fr.recovered = false
	if fr.fn.Recover != nil {
		fr.prev = fr.block
		fr.block = fr.fn.Recover
		fr.ip = 0
		return
	}
	// return zero values
	res := fr.fn.Signature.Results()
	var out Value
	switch res.Len() {
	case 0:
	case 1:
		out = in.zero(res.At(0).Type())
	default:
		out = in.zero(res)
	}
	in.returnFrom(g, out)
}

// ---------------------------------------------------------------- main step

const maxSteps = 400_000_000

func (in *Interp) step(g *G) {
	in.steps++
	if in.steps > in.ex.cfg.MaxSteps {
		panic(pathEnd{"bound", fmt.Sprintf("step limit %d exceeded", in.ex.cfg.MaxSteps)})
	}
	if g.unwind != nil {
		in.unwindStep(g)
		return
	}
	if len(g.stack) == 0 {
		g.status = gDone
		return
	}
	fr := g.stack[len(g.stack)-1]
	if fr.unwinding {
		// a deferred call returned while this frame is unwinding
		if fr.recovered {
			in.finishRecovered(g, fr)
			return
		}
		g.unwind = fr.pendingPanic
		fr.pendingPanic = nil
		fr.unwinding = false
		return
	}
	ins := fr.block.Instrs[fr.ip]
	in.exec(g, fr, ins)
}

func (in *Interp) jump(fr *Frame, to *ssa.BasicBlock) {
	fr.prev = fr.block
	fr.block = to
	fr.ip = 0
	// evaluate phis simultaneously
	var idx int = -1
	for i, p := range to.Preds {
		if p == fr.prev {
			idx = i
			break
		}
	}
	var vals []Value
	n := 0
	for _, ins := range to.Instrs {
		phi, ok := ins.(*ssa.Phi)
		if !ok {
			break
		}
		if idx < 0 {
			in.abort("phi: predecessor not found")
		}
		vals = append(vals, in.get(fr, phi.Edges[idx]))
		n++
	}
	for i := 0; i < n; i++ {
		in.set(fr, to.Instrs[i].(*ssa.Phi), vals[i])
	}
	fr.ip = n
}

func (in *Interp) exec(g *G, fr *Frame, ins ssa.Instruction) {
	switch x := ins.(type) {
	case *ssa.DebugRef:
		fr.ip++
	case *ssa.Alloc:
		in.set(fr, x, in.newBox(x.Type().(*types.Pointer).Elem()))
		fr.ip++
	case *ssa.BinOp:
		in.set(fr, x, in.binop(x.Op, in.get(fr, x.X), in.get(fr, x.Y), x.X.Type(), x.Y.Type()))
		if g.unwind == nil {
			fr.ip++
		}
	case *ssa.UnOp:
		in.execUnOp(g, fr, x)
	case *ssa.Call:
		v, pushed := in.doCall(g, fr, &x.Call, retToCaller, x)
		if !pushed {
			in.set(fr, x, v)
			fr.ip++
		}
	case *ssa.ChangeInterface:
		in.set(fr, x, in.get(fr, x.X))
		fr.ip++
	case *ssa.ChangeType:
		in.set(fr, x, in.get(fr, x.X))
		fr.ip++
	case *ssa.Convert:
		in.set(fr, x, in.convert(in.get(fr, x.X), x.X.Type(), x.Type()))
		fr.ip++
	case *ssa.MultiConvert:
		in.set(fr, x, in.convert(in.get(fr, x.X), x.X.Type(), x.Type()))
		fr.ip++
	case *ssa.Extract:
		tv, ok := in.get(fr, x.Tuple).(TupleV)
		if !ok {
			in.abort("extract from non-tuple %s", describe(in.get(fr, x.Tuple)))
		}
		in.set(fr, x, tv[x.Index])
		fr.ip++
	case *ssa.Field:
		a := in.get(fr, x.X).(*Agg)
		in.set(fr, x, a.s[x.Field])
		fr.ip++
	case *ssa.FieldAddr:
		p := in.get(fr, x.X).(PtrV)
		if p.base == nil {
			in.goPanic("nil pointer dereference")
			return
		}
		st, ok := p.base.s[p.idx].(*Agg)
		if !ok {
			in.abort("FieldAddr: target is not a struct: %s", describe(p.base.s[p.idx]))
		}
		in.set(fr, x, PtrV{base: st, idx: x.Field})
		fr.ip++
	case *ssa.Index:
		in.execIndex(g, fr, x)
	case *ssa.IndexAddr:
		in.execIndexAddr(g, fr, x)
	case *ssa.Lookup:
		in.execLookup(g, fr, x)
	case *ssa.MakeClosure:
		fv := &FuncV{fn: x.Fn.(*ssa.Function)}
		for _, b := range x.Bindings {
			fv.env = append(fv.env, in.get(fr, b))
		}
		in.set(fr, x, fv)
		fr.ip++
	case *ssa.MakeInterface:
		in.set(fr, x, IfaceV{t: x.X.Type(), v: in.get(fr, x.X)})
		fr.ip++
	case *ssa.MakeMap:
		in.nalloc++
		in.set(fr, x, &MapObj{typ: types.Unalias(x.Type()).Underlying().(*types.Map), id: in.nalloc})
		fr.ip++
	case *ssa.MakeSlice:
		in.execMakeSlice(g, fr, x)
	case *ssa.MakeChan:
		n := in.concreteInt(in.get(fr, x.Size).(*Term), "chan size")
		in.nalloc++
		in.set(fr, x, &ChanObj{id: in.nalloc, cap: int(n), elem: types.Unalias(x.Type()).Underlying().(*types.Chan).Elem()})
		fr.ip++
	case *ssa.MapUpdate:
		m := in.get(fr, x.Map).(*MapObj)
		if m == nil {
			in.goPanic("assignment to entry in nil map")
			return
		}
		in.mapSet(m, in.get(fr, x.Key), copyVal(in.get(fr, x.Value)))
		fr.ip++
	case *ssa.Range:
		in.execRange(g, fr, x)
	case *ssa.Next:
		in.execNext(g, fr, x)
	case *ssa.Phi:
		in.abort("phi executed directly")
	case *ssa.Slice:
		in.execSlice(g, fr, x)
	case *ssa.SliceToArrayPointer:
		s := in.get(fr, x.X).(SliceV)
		n := int(types.Unalias(x.Type()).Underlying().(*types.Pointer).Elem().Underlying().(*types.Array).Len())
		if s.len < n {
			in.goPanic("slice to array pointer: length too short")
			return
		}
		if s.base == nil {
			in.set(fr, x, PtrV{})
		} else if s.off == 0 && len(s.base.s) == n {
			box := &Agg{s: []Value{s.base}}
			in.set(fr, x, PtrV{base: box})
		} else {
			in.abort("SliceToArrayPointer into the middle of an array unsupported")
		}
		fr.ip++
	case *ssa.Store:
		p := in.get(fr, x.Addr).(PtrV)
		in.store(p, in.get(fr, x.Val))
		if g.unwind == nil {
			fr.ip++
		}
	case *ssa.TypeAssert:
		in.execTypeAssert(g, fr, x)
	case *ssa.If:
		c := in.get(fr, x.Cond).(*Term)
		var taken bool
		if c.IsConst() {
			taken = c.c != 0
		} else {
			if fr.branchCnt == nil {
				fr.branchCnt = map[ssa.Instruction]int{}
			}
			fr.branchCnt[x]++
			ub := in.ex.cfg.Unwind
			if in.unwindOverride > 0 {
				ub = in.unwindOverride
			}
			if fr.branchCnt[x] > ub {
				panic(pathEnd{"bound", fmt.Sprintf("unwind bound %d exceeded at %s in %s", ub, in.posOf(fr), fr.fn)})
			}
			taken = in.decide(c)
		}
		if taken {
			in.jump(fr, fr.block.Succs[0])
		} else {
			in.jump(fr, fr.block.Succs[1])
		}
	case *ssa.Jump:
		in.jump(fr, fr.block.Succs[0])
	case *ssa.Return:
		if len(fr.defers) > 0 {
			in.abort("return with pending defers (missing RunDefers)")
		}
		var out Value
		switch len(x.Results) {
		case 0:
		case 1:
			out = in.get(fr, x.Results[0])
		default:
			tv := make(TupleV, len(x.Results))
			for i, r := range x.Results {
				tv[i] = in.get(fr, r)
			}
			out = tv
		}
		in.returnFrom(g, out)
	case *ssa.Panic:
		v := in.get(fr, x.X)
		site := fr.fn.String() + "@" + in.posOf(fr)
		in.raise(&panicState{val: v, desc: "panic: " + in.describePanic(v), site: site})
	case *ssa.Defer:
		in.execDefer(g, fr, x)
	case *ssa.RunDefers:
		if len(fr.defers) == 0 {
			fr.ip++
			return
		}
		d := fr.defers[len(fr.defers)-1]
		fr.defers = fr.defers[:len(fr.defers)-1]
		in.runDeferred(g, fr, d)
	case *ssa.Go:
		in.execGo(g, fr, x)
	case *ssa.Select:
		in.execSelect(g, fr, x)
	case *ssa.Send:
		in.execSend(g, fr, x)
	default:
		in.abort("unsupported instruction %T: %s", ins, ins)
	}
}

func (in *Interp) describePanic(v Value) string {
	if iv, ok := v.(IfaceV); ok {
		if s, ok := iv.v.(StrV); ok {
			if c, ok := s.Concrete(); ok {
				return c
			}
		}
		if iv.t != nil {
			return "value of type " + iv.t.String()
		}
	}
	return describe(v)
}

func (in *Interp) execDefer(g *G, fr *Frame, x *ssa.Defer) {
	cc := &x.Call
	var d deferred
	if cc.IsInvoke() {
		recv := in.get(fr, cc.Value).(IfaceV)
		if recv.t == nil {
			in.goPanic("nil pointer dereference (deferred method call on nil interface)")
			return
		}
		if _, isOp := recv.v.(*Opaque); isOp {
			in.abort("defer of opaque method")
		}
		fn := in.lookupMethod(recv.t, cc.Method)
		d.fn = &FuncV{fn: fn}
		d.args = append(d.args, recv.v)
	} else if _, ok := cc.Value.(*ssa.Builtin); ok {
		d.call = cc
	} else if sf := cc.StaticCallee(); sf != nil {
		fv := &FuncV{fn: sf}
		if mc, ok := cc.Value.(*ssa.MakeClosure); ok {
			for _, b := range mc.Bindings {
				fv.env = append(fv.env, in.get(fr, b))
			}
		}
		d.fn = fv
	} else {
		fv, _ := in.get(fr, cc.Value).(*FuncV)
		d.fn = fv
	}
	for _, a := range cc.Args {
		d.args = append(d.args, in.get(fr, a))
	}
	fr.defers = append(fr.defers, d)
	fr.ip++
}

func (in *Interp) builtinDeferred(fr *Frame, d deferred) {
	b := d.call.Value.(*ssa.Builtin)
	switch b.Name() {
	case "close":
		in.chanClose(d.args[0].(*ChanObj))
	case "recover":
		in.doRecover(fr)
	case "print", "println":
	case "delete":
		if m := d.args[0].(*MapObj); m != nil {
			in.mapDelete(m, d.args[1])
		}
	default:
		in.abort("deferred builtin %s unsupported", b.Name())
	}
}

func (in *Interp) doRecover(fr *Frame) Value {
	// recover is effective only when called directly by a deferred function during panicking
	if fr.isDeferCall && fr.caller != nil && fr.caller.unwinding && fr.caller.pendingPanic != nil && !fr.caller.recovered {
		ps := fr.caller.pendingPanic
		fr.caller.recovered = true
		fr.caller.pendingPanic = nil
		in.pathNotes = append(in.pathNotes, "recovered: "+ps.desc)
		return ps.val
	}
	return IfaceV{}
}

// ---------------------------------------------------------------- helpers

// concreteInt requires (or forces, by case split) a concrete value for a shape-defining integer.
func (in *Interp) concreteInt(t *Term, what string) int64 {
	if t.IsConst() {
		return t.S()
	}
	v := in.concretize(t, what)
	return (&Term{w: t.w, c: v}).S()
}

func sortedKeys(m map[string]int) []string {
	var ks []string
	for k := range m {
		ks = append(ks, k)
	}
	sort.Strings(ks)
	return ks
}
