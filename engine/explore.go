package main

import (
	"encoding/hex"
	"fmt"
	"os"
	"runtime/debug"
	"sort"
	"strings"
	"sync"
	"time"

	"golang.org/x/tools/go/ssa"
)

type Config struct {
	Unwind         int
	MaxSteps       int64
	Workers        int
	Solver         string
	TimeoutMs      int
	MapOrderChoice bool
	MaxPaths       int
	Preempt        int
	ConcCap        int
	Verbose        bool
	Known          map[string]KnownEntry // active known findings by id
	TimeBudget     time.Duration
}

type KnownEntry struct {
	Kind     string `json:"kind"` // "known" or "fixed"
	ID       string `json:"id"`
	Property string `json:"property"`
	Entry    string `json:"entry,omitempty"`
	Match    string `json:"match,omitempty"`
	What     string `json:"what"`
	Commit   string `json:"commit,omitempty"`
	Site     string `json:"site,omitempty"`
}

type ReplayItem struct {
	Tag  string `json:"tag"`
	Kind string `json:"kind"`
	Int  uint64 `json:"int,omitempty"`
	Hex  string `json:"hex,omitempty"`
	N    int    `json:"n,omitempty"`
}

type Violation struct {
	Entry    string       `json:"entry"`
	Label    string       `json:"label"`
	Msg      string       `json:"msg"`
	Site     string       `json:"site"`
	Known    string       `json:"known,omitempty"`
	Inputs   []ReplayItem `json:"inputs"`
	Sched    []string     `json:"sched,omitempty"`
	Path     []int64      `json:"path"`
	Notes    []string     `json:"notes,omitempty"`
	Modelled bool         `json:"modelled"` // false if solver could not give a model
	// Passed: assertions of the harness that were evaluated and held on this path before the violation
	Passed []string `json:"passed,omitempty"`
}

type Result struct {
	Entry      string
	Paths      int
	PathKinds  map[string]int
	Violations []Violation
	VioCount   map[string]int
	Aborts     map[string]int
	Bounds     map[string]int
	Reach      map[string]int
	Expected   []string
	Asserts    map[string]int // label -> number of paths on which the assertion was evaluated
	AssertSym  map[string]int // label -> number of symbolic (solver-decided) evaluations
	Queries    int
	Sat        int
	Unsat      int
	Unknown    int
	SolverErr  int
	SolverWall time.Duration
	Wall       time.Duration
	Notes      map[string]int
	Funcs      map[string]int
	Stubs      map[string]int
	Samples    []string
	Truncated  bool
	Steps      int64
	LastSolverErr string
}

type Explorer struct {
	w     *World
	cfg   Config
	entry *ssa.Function

	mu      sync.Mutex
	cond    *sync.Cond
	work    [][]int64
	active  int
	res     *Result
	vioSeen map[string]int
	freshVio int
	stop    bool
	start   time.Time
	tier    int
	initial []int64 // decision prefix of the first path (nil = explore everything)
}

func NewExplorer(w *World, entry *ssa.Function, cfg Config) *Explorer {
	ex := &Explorer{w: w, cfg: cfg, entry: entry}
	ex.cond = sync.NewCond(&ex.mu)
	ex.res = &Result{Entry: entry.Name(), PathKinds: map[string]int{}, VioCount: map[string]int{}, Aborts: map[string]int{},
		Bounds: map[string]int{}, Reach: map[string]int{}, Asserts: map[string]int{}, AssertSym: map[string]int{}, Notes: map[string]int{}, Funcs: map[string]int{}, Stubs: map[string]int{}}
	ex.vioSeen = map[string]int{}
	return ex
}

func (ex *Explorer) Run() *Result {
	ex.start = time.Now()
	ex.work = [][]int64{ex.initial}
	var wg sync.WaitGroup
	if os.Getenv("VERIF_PROGRESS") != "" {
		go func() {
			for {
				time.Sleep(15 * time.Second)
				ex.mu.Lock()
				fmt.Fprintf(os.Stderr, "[progress %s] %.0fs paths=%d pending=%d active=%d vio=%d\n", ex.entry.Name(), time.Since(ex.start).Seconds(), ex.res.Paths, len(ex.work), ex.active, len(ex.res.Violations))
				ex.mu.Unlock()
			}
		}()
	}
	for i := 0; i < ex.cfg.Workers; i++ {
		wg.Add(1)
		go func(id int) {
			defer wg.Done()
			ex.worker(id)
		}(i)
	}
	wg.Wait()
	ex.res.Wall = time.Since(ex.start)
	return ex.res
}

func (ex *Explorer) worker(id int) {
	sol, err := NewSolver(ex.cfg.Solver, ex.cfg.TimeoutMs)
	if err != nil {
		fmt.Fprintln(os.Stderr, "solver start:", err)
		os.Exit(2)
	}
	defer sol.Close()
	in := &Interp{w: ex.w, tt: NewTermTable(), ex: ex, sol: sol}
	for {
		ex.mu.Lock()
		for len(ex.work) == 0 && ex.active > 0 && !ex.stop {
			ex.cond.Wait()
		}
		if ex.stop || (len(ex.work) == 0 && ex.active == 0) {
			ex.mu.Unlock()
			ex.cond.Broadcast()
			break
		}
		prefix := ex.work[len(ex.work)-1]
		ex.work = ex.work[:len(ex.work)-1]
		ex.active++
		ex.mu.Unlock()

		if len(in.tt.all) > 3_000_000 {
			// bound memory: fresh term table and solver
			in.tt = NewTermTable()
			sol.restart()
		}
		kind, msg := in.runPath(prefix)

		ex.mu.Lock()
		ex.active--
		ex.res.Paths++
		ex.res.PathKinds[kind]++
		ex.res.Steps += in.steps
		switch kind {
		case "abort":
			ex.res.Aborts[msg]++
		case "bound":
			ex.res.Bounds[msg]++
		}
		for _, n := range in.pathNotes {
			ex.res.Notes[n]++
		}
		if len(ex.res.Samples) < 6 && kind == "done" {
			ex.res.Samples = append(ex.res.Samples, in.samplePath())
		}
		if ex.cfg.MaxPaths > 0 && ex.res.Paths >= ex.cfg.MaxPaths && len(ex.work) > 0 {
			ex.res.Truncated = true
			ex.stop = true
		}
		if ex.freshVio > 0 && time.Since(ex.start) > 3*time.Minute && len(ex.work) > 0 {
			// counterexamples are in hand: do not spend the whole budget on a tree that is already refuted
			ex.res.Truncated = true
			ex.stop = true
		}
		if ex.cfg.TimeBudget > 0 && time.Since(ex.start) > ex.cfg.TimeBudget && len(ex.work) > 0 {
			ex.res.Truncated = true
			ex.stop = true
		}
		ex.mu.Unlock()
		ex.cond.Broadcast()
	}
	ex.mu.Lock()
	ex.res.Queries += sol.Queries
	ex.res.Sat += sol.Sat
	ex.res.Unsat += sol.Unsat
	ex.res.Unknown += sol.Unknown
	ex.res.SolverErr += sol.Errors
	ex.res.SolverWall += sol.Wall
	if sol.LastErr != "" {
		ex.res.LastSolverErr = sol.LastErr
	}
	ex.mu.Unlock()
}

func (in *Interp) samplePath() string {
	var sb strings.Builder
	fmt.Fprintf(&sb, "decisions=%d pc=%d inputs=[", len(in.decisions64), len(in.pc))
	for i, ir := range in.inputs {
		if i > 0 {
			sb.WriteString(" ")
		}
		if i >= 8 {
			sb.WriteString("...")
			break
		}
		switch ir.kind {
		case "bytes":
			fmt.Fprintf(&sb, "%s:len%d", ir.tag, ir.n)
		case "choice":
			fmt.Fprintf(&sb, "%s=%d", ir.tag, ir.n)
		default:
			fmt.Fprintf(&sb, "%s:u%d", ir.tag, ir.w)
		}
	}
	sb.WriteString("]")
	return sb.String()
}

func (ex *Explorer) push(p []int64) {
	ex.mu.Lock()
	ex.work = append(ex.work, p)
	ex.mu.Unlock()
	ex.cond.Signal()
}

// ---------------------------------------------------------------- per-path

func (in *Interp) resetPath(prefix []int64) {
	in.pc = nil
	in.prefix64 = prefix
	in.decisions64 = in.decisions64[:0]
	in.gs = nil
	in.cur = nil
	in.globals = map[*ssa.Global]PtrV{}
	in.inited = map[*ssa.Package]bool{}
	in.consts = map[*ssa.Const]Value{}
	in.lenient = 0
	in.nalloc = 0
	in.steps = 0
	in.inputs = nil
	in.ninput = map[string]int{}
	in.ufApps = map[string][]*ufApp{}
	in.side = map[interface{}]interface{}{}
	in.pathNotes = nil
	in.knownActive = nil
	in.preempt = in.ex.cfg.Preempt
	in.logs = map[string][]Value{}
	in.syncDepth = 0
	in.allocLimit = 0
	in.expectPanic = false
	in.opaqueN = 0
	in.sched = nil
	in.signs = nil
	in.verifies = nil
	in.nverify = 0
	in.nufapp = 0
	in.seals = nil
	in.opens = nil
	in.unwindOverride = 0
	in.mapOrder = false
	in.freeSwitch = false
	in.yielded = false
	in.stubsUsed = nil
	in.reached = map[string]bool{}
	in.asserted = map[string]bool{}
}

func (in *Interp) runPath(prefix []int64) (kind, msg string) {
	in.resetPath(prefix)
	defer func() {
		if r := recover(); r != nil {
			if pe, ok := r.(pathEnd); ok {
				kind, msg = pe.kind, pe.msg
			} else {
				kind, msg = "abort", fmt.Sprintf("engine panic: %v\n%s", r, debug.Stack())
			}
		}
		in.flushPathMarks()
	}()
	main := &G{id: 0, name: "main", isMain: true}
	in.gs = []*G{main}
	in.cur = main
	in.pushFrame(main, in.ex.entry, nil, nil, retDiscard, nil)
	in.runLoop()
	if main.diedPanic != nil {
		ps := main.diedPanic
		if !in.expectPanic {
			in.violation("panic", ps.desc, false, ps.site)
		}
		return "done", "panic"
	}
	// other goroutines that died of panic
	for _, g := range in.gs {
		if g.diedPanic != nil && !in.expectPanic {
			in.violation("panic", "goroutine "+g.name+": "+g.diedPanic.desc, false, g.diedPanic.site)
		}
	}
	return "done", ""
}

func (in *Interp) flushPathMarks() {
	ex := in.ex
	ex.mu.Lock()
	for l := range in.reached {
		ex.res.Reach[l]++
	}
	for l := range in.asserted {
		ex.res.Asserts[l]++
	}
	ex.mu.Unlock()
}

// ---------------------------------------------------------------- decisions

func (in *Interp) query(extra ...*Term) string {
	ex := append(in.dynAxioms(), extra...)
	r, _ := in.sol.CheckPC(in.pc, ex, nil)
	return r
}

func (in *Interp) addPC(c *Term) {
	if c.IsConst() {
		return
	}
	in.pc = append(in.pc, c)
}

// decide returns the truth value of symbolic condition c on this path, forking if both are feasible.
func (in *Interp) decide(c *Term) bool {
	if c.IsConst() {
		return c.c != 0
	}
	if in.lenient > 0 {
		in.abort("symbolic decision during package init")
	}
	pos := len(in.decisions64)
	if pos < len(in.prefix64) {
		d := in.prefix64[pos]
		in.decisions64 = append(in.decisions64, d)
		taken := d&1 != 0
		if d&2 != 0 {
			if taken {
				in.addPC(c)
			} else {
				in.addPC(in.tt.Not(c))
			}
		}
		return taken
	}
	nc := in.tt.Not(c)
	rt := in.query(c)
	if rt == "unsat" {
		in.decisions64 = append(in.decisions64, 0)
		return false
	}
	rf := in.query(nc)
	if rf == "unsat" {
		if rt == "unknown" {
			in.noteUnknown("branch feasibility")
			in.addPC(c)
			in.decisions64 = append(in.decisions64, 1|2)
			return true
		}
		in.decisions64 = append(in.decisions64, 1)
		return true
	}
	if rt == "unknown" || rf == "unknown" {
		in.noteUnknown("branch feasibility")
	}
	// both feasible: fork; explore true first, queue false
	alt := make([]int64, pos+1)
	copy(alt, in.decisions64)
	alt[pos] = 0 | 2
	in.ex.push(alt)
	in.decisions64 = append(in.decisions64, 1|2)
	in.addPC(c)
	return true
}

func (in *Interp) noteUnknown(what string) {
	in.pathNotes = append(in.pathNotes, "solver unknown: "+what)
	in.ex.mu.Lock()
	in.ex.res.Notes["UNKNOWN:"+what]++
	in.ex.mu.Unlock()
}

// assume adds c to the path condition; ends the path if infeasible.
func (in *Interp) assume(c *Term) {
	if c.IsConst() {
		if c.c == 0 {
			panic(pathEnd{"infeasible", "assume(false)"})
		}
		return
	}
	pos := len(in.decisions64)
	if pos < len(in.prefix64) {
		in.decisions64 = append(in.decisions64, in.prefix64[pos])
		in.addPC(c)
		return
	}
	r := in.query(c)
	if r == "unsat" {
		panic(pathEnd{"infeasible", "assumption infeasible"})
	}
	if r == "unknown" {
		in.noteUnknown("assume feasibility")
	}
	in.decisions64 = append(in.decisions64, 1)
	in.addPC(c)
}

// choose makes an unconstrained n-way choice.
func (in *Interp) choose(n int, tag string) int {
	if n <= 1 {
		return 0
	}
	pos := len(in.decisions64)
	if pos < len(in.prefix64) {
		d := in.prefix64[pos]
		in.decisions64 = append(in.decisions64, d)
		return int(d)
	}
	for k := n - 1; k >= 1; k-- {
		alt := make([]int64, pos+1)
		copy(alt, in.decisions64)
		alt[pos] = int64(k)
		in.ex.push(alt)
	}
	in.decisions64 = append(in.decisions64, 0)
	return 0
}

// concretize case-splits over all feasible values of t (up to the cap).
func (in *Interp) concretize(t *Term, what string) uint64 {
	if t.IsConst() {
		return t.c
	}
	if in.lenient > 0 {
		in.abort("symbolic concretisation during package init")
	}
	pos := len(in.decisions64)
	if pos < len(in.prefix64) {
		v := uint64(in.prefix64[pos])
		in.decisions64 = append(in.decisions64, int64(v))
		in.addPC(in.tt.Eq(t, in.tt.Const(t.w, v)))
		return v
	}
	var vals []uint64
	var excl []*Term
	capN := in.ex.cfg.ConcCap
	for {
		r, m := in.sol.CheckPC(in.pc, append(in.dynAxioms(), excl...), []*Term{t})
		if r == "unsat" {
			break
		}
		if r != "sat" || m == nil {
			in.noteUnknown("concretisation of " + what)
			break
		}
		v := m[t.id]
		vals = append(vals, v)
		excl = append(excl, in.tt.Not(in.tt.Eq(t, in.tt.Const(t.w, v))))
		if len(vals) > capN {
			panic(pathEnd{"bound", fmt.Sprintf("concretisation of %s at %s has more than %d feasible values", what, in.where(), capN)})
		}
	}
	if len(vals) == 0 {
		panic(pathEnd{"infeasible", "no feasible value in concretisation"})
	}
	sort.Slice(vals, func(i, j int) bool { return vals[i] < vals[j] })
	for k := len(vals) - 1; k >= 1; k-- {
		alt := make([]int64, pos+1)
		copy(alt, in.decisions64)
		alt[pos] = int64(vals[k])
		in.ex.push(alt)
	}
	in.decisions64 = append(in.decisions64, int64(vals[0]))
	in.addPC(in.tt.Eq(t, in.tt.Const(t.w, vals[0])))
	return vals[0]
}

func (in *Interp) where() string {
	if in.cur != nil && len(in.cur.stack) > 0 {
		fr := in.top()
		return fr.fn.String() + "@" + in.posOf(fr)
	}
	return "?"
}

// ---------------------------------------------------------------- violations

func (in *Interp) model() ([]ReplayItem, bool) {
	var want []*Term
	for _, ir := range in.inputs {
		for _, t := range ir.terms {
			if !t.IsConst() {
				want = append(want, t)
			}
		}
	}
	var vals map[int]uint64
	ok := true
	if len(want) > 0 {
		r, m := in.sol.CheckPC(in.pc, in.dynAxioms(), want)
		if r != "sat" || m == nil {
			ok = false
		}
		vals = m
	}
	var items []ReplayItem
	for _, ir := range in.inputs {
		it := ReplayItem{Tag: ir.tag, Kind: ir.kind}
		get := func(t *Term) uint64 {
			if t.IsConst() {
				return t.c
			}
			return vals[t.id]
		}
		switch ir.kind {
		case "bytes":
			b := make([]byte, len(ir.terms))
			for i, t := range ir.terms {
				b[i] = byte(get(t))
			}
			it.Hex = hex.EncodeToString(b)
			it.N = ir.n
		case "choice":
			it.N = ir.n
		default:
			it.Int = get(ir.terms[0])
			it.N = ir.w
		}
		items = append(items, it)
	}
	return items, ok
}

// maxVioPerKey bounds the counterexamples kept per (assertion, site): several are kept because one that
// depends on the value of an idealised primitive does not replay natively while another may.
const maxVioPerKey = 8

func (in *Interp) violation(label, msg string, _ bool, siteOpt ...string) {
	site := in.where()
	if len(siteOpt) > 0 && siteOpt[0] != "" {
		site = siteOpt[0]
	}
	known := ""
	for _, id := range in.knownActive {
		ke := in.ex.cfg.Known[id]
		hit := ke.Match == ""
		for _, alt := range strings.Split(ke.Match, "|") {
			if alt != "" && strings.Contains(label+" "+msg+" "+site, alt) {
				hit = true
			}
		}
		if hit {
			known = id
			break
		}
	}
	key := label + "|" + site + "|" + known
	ex := in.ex
	ex.mu.Lock()
	ex.res.VioCount[key]++
	n := ex.vioSeen[key]
	ex.vioSeen[key]++
	ex.mu.Unlock()
	replace := -1
	if n >= maxVioPerKey {
		// reservoir sampling over all counterexamples of this (assertion, site): the kept candidates are
		// spread over the exploration instead of being the first ones found (which tend to come from one
		// harness shape, and may all depend on values of idealised primitives)
		h := uint64(n+1)*0x9E3779B97F4A7C15 ^ uint64(len(in.decisions64))*0xBF58476D1CE4E5B9
		h ^= h >> 29
		j := int(h % uint64(n+1))
		if j >= maxVioPerKey || n > 4096 {
			return
		}
		replace = j
	}
	items, ok := in.model()
	if !ok {
		// the path condition could not be shown satisfiable: not a counterexample, inconclusive
		in.noteUnknown("model for " + label + " at " + site)
		ex.mu.Lock()
		ex.res.VioCount[key]--
		ex.vioSeen[key]--
		ex.mu.Unlock()
		return
	}
	var passed []string
	for l := range in.asserted {
		if "assert:"+l != label {
			passed = append(passed, l)
		}
	}
	sort.Strings(passed)
	v := Violation{Entry: ex.entry.Name(), Label: label, Msg: msg, Site: site, Known: known, Inputs: items, Passed: passed,
		Path: append([]int64{}, in.decisions64...), Notes: append([]string{}, in.pathNotes...), Modelled: ok, Sched: append([]string{}, in.sched...)}
	ex.mu.Lock()
	if replace >= 0 {
		k := 0
		for i := range ex.res.Violations {
			o := &ex.res.Violations[i]
			if o.Label+"|"+o.Site+"|"+o.Known == key {
				if k == replace {
					*o = v
					break
				}
				k++
			}
		}
	} else {
		ex.res.Violations = append(ex.res.Violations, v)
		if known == "" {
			ex.freshVio++
		}
	}
	ex.mu.Unlock()
}
