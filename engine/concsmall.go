package main

import (
	"math"
	"sort"

	"golang.org/x/tools/go/ssa"
)

const overflowMark = math.MinInt64

// concretizeSmall case-splits over the feasible values of t if there are at most capN of them;
// otherwise it returns ok=false without forking (callers then use an opaque placeholder).
func (in *Interp) concretizeSmall(t *Term, what string, capN int) (uint64, bool) {
	if t.IsConst() {
		return t.c, true
	}
	pos := len(in.decisions64)
	if pos < len(in.prefix64) {
		d := in.prefix64[pos]
		in.decisions64 = append(in.decisions64, d)
		if d == overflowMark {
			return 0, false
		}
		v := uint64(d)
		in.addPC(in.tt.Eq(t, in.tt.Const(t.w, v)))
		return v, true
	}
	var vals []uint64
	var excl []*Term
	for {
		r, m := in.sol.CheckPC(in.pc, append(in.dynAxioms(), excl...), []*Term{t})
		if r == "unsat" {
			break
		}
		if r != "sat" || m == nil {
			in.noteUnknown("concretisation of " + what)
			break
		}
		v := m[t.id]
		vals = append(vals, v)
		excl = append(excl, in.tt.Not(in.tt.Eq(t, in.tt.Const(t.w, v))))
		if len(vals) > capN {
			in.decisions64 = append(in.decisions64, overflowMark)
			return 0, false
		}
	}
	if len(vals) == 0 {
		panic(pathEnd{"infeasible", "no feasible value in concretisation"})
	}
	sort.Slice(vals, func(i, j int) bool { return vals[i] < vals[j] })
	for k := len(vals) - 1; k >= 1; k-- {
		alt := make([]int64, pos+1)
		copy(alt, in.decisions64)
		alt[pos] = int64(vals[k])
		in.ex.push(alt)
	}
	in.decisions64 = append(in.decisions64, int64(vals[0]))
	in.addPC(in.tt.Eq(t, in.tt.Const(t.w, vals[0])))
	return vals[0], true
}

func init() {
	// integer formatting: exact for concrete or narrowly constrained values; a widely ranging
	// symbolic value yields an opaque placeholder text (only ever used in messages; noted).
	itoaLike := func(signedArg bool) intrinsicFn {
		return func(in *Interp, fn *ssa.Function, args []Value, site ssa.Value) Value {
			t := args[0].(*Term)
			base := int64(10)
			if len(args) > 1 {
				base = in.concreteInt(args[1].(*Term), "strconv base")
			}
			v, ok := in.concretizeSmall(t, "strconv argument", 6)
			if !ok {
				in.pathNotes = append(in.pathNotes, "strconv of a widely ranging symbolic integer -> opaque placeholder text")
				return in.strConst("<int>")
			}
			if signedArg {
				return in.strConst(strconvFormat((&Term{w: t.w, c: v}).S(), int(base)))
			}
			return in.strConst(strconvFormatU(v, int(base)))
		}
	}
	reg("strconv.Itoa", itoaLike(true))
	reg("strconv.FormatInt", itoaLike(true))
	reg("strconv.FormatUint", itoaLike(false))
}
