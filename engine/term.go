package main

// Hash-consed SMT terms (QF_UFBV). Width 0 denotes sort Bool; width w>0 is (_ BitVec w).
// Constants wider than 64 bits never arise: wide values only exist as n-ary concat of
// byte terms feeding an uninterpreted function.

import (
	"fmt"
	"math/bits"
	"strings"
)

type Op uint8

const (
	OpConst Op = iota
	OpVar
	OpNot // bool
	OpAnd // bool n-ary
	OpOr  // bool n-ary
	OpIte // bool cond, any
	OpEq
	OpUlt
	OpUle
	OpSlt
	OpSle
	OpBvNot
	OpBvNeg
	OpBvAnd
	OpBvOr
	OpBvXor
	OpAdd
	OpSub
	OpMul
	OpUdiv
	OpUrem
	OpSdiv
	OpSrem
	OpShl
	OpLshr
	OpAshr
	OpExtract // c = hi<<16 | lo
	OpConcat  // n-ary, args[0] most significant
	OpZext
	OpSext
	OpUF // name, args; width w (0 = predicate)
)

var opNames = map[Op]string{
	OpNot: "not", OpAnd: "and", OpOr: "or", OpIte: "ite", OpEq: "=", OpUlt: "bvult", OpUle: "bvule",
	OpSlt: "bvslt", OpSle: "bvsle", OpBvNot: "bvnot", OpBvNeg: "bvneg", OpBvAnd: "bvand", OpBvOr: "bvor",
	OpBvXor: "bvxor", OpAdd: "bvadd", OpSub: "bvsub", OpMul: "bvmul", OpUdiv: "bvudiv", OpUrem: "bvurem",
	OpSdiv: "bvsdiv", OpSrem: "bvsrem", OpShl: "bvshl", OpLshr: "bvlshr", OpAshr: "bvashr", OpConcat: "concat",
}

type Term struct {
	op   Op
	w    int // 0 = Bool
	c    uint64
	name string
	args []*Term
	id   int
	wide bool // contains an uninterpreted function over more than 64 bits
}

type termKey struct {
	op         Op
	w          int
	c          uint64
	name       string
	a0, a1, a2 int
	rest       string
}

type TermTable struct {
	tab   map[termKey]*Term
	all   []*Term
	True  *Term
	False *Term
}

func NewTermTable() *TermTable {
	tt := &TermTable{tab: map[termKey]*Term{}}
	tt.True = tt.mk(OpConst, 0, 1, "", nil)
	tt.False = tt.mk(OpConst, 0, 0, "", nil)
	return tt
}

func (tt *TermTable) mk(op Op, w int, c uint64, name string, args []*Term) *Term {
	k := termKey{op: op, w: w, c: c, name: name, a0: -1, a1: -1, a2: -1}
	if len(args) > 0 {
		k.a0 = args[0].id
	}
	if len(args) > 1 {
		k.a1 = args[1].id
	}
	if len(args) > 2 {
		k.a2 = args[2].id
	}
	if len(args) > 3 {
		var sb strings.Builder
		for _, a := range args[3:] {
			fmt.Fprintf(&sb, "%d,", a.id)
		}
		k.rest = sb.String()
	}
	if t, ok := tt.tab[k]; ok {
		return t
	}
	t := &Term{op: op, w: w, c: c, name: name, args: args, id: len(tt.all)}
	for _, a := range args {
		if a.wide || (op == OpUF && a.w > 64) {
			t.wide = true
		}
	}
	if op == OpUF && w > 64 {
		t.wide = true
	}
	tt.tab[k] = t
	tt.all = append(tt.all, t)
	return t
}

func mask(w int) uint64 {
	if w >= 64 {
		return ^uint64(0)
	}
	return (uint64(1) << uint(w)) - 1
}

func (t *Term) IsConst() bool { return t.op == OpConst }
func (t *Term) IsBool() bool  { return t.w == 0 }

// signed value of a constant
func (t *Term) S() int64 {
	if t.w >= 64 {
		return int64(t.c)
	}
	if t.w > 0 && t.c&(1<<uint(t.w-1)) != 0 {
		return int64(t.c | ^mask(t.w))
	}
	return int64(t.c)
}

func (tt *TermTable) Const(w int, v uint64) *Term {
	if w == 0 {
		if v != 0 {
			return tt.True
		}
		return tt.False
	}
	if w > 64 {
		panic("wide const")
	}
	return tt.mk(OpConst, w, v&mask(w), "", nil)
}

func (tt *TermTable) Bool(b bool) *Term {
	if b {
		return tt.True
	}
	return tt.False
}

func (tt *TermTable) Var(name string, w int) *Term { return tt.mk(OpVar, w, 0, name, nil) }

func (tt *TermTable) Not(a *Term) *Term {
	if a.op == OpConst {
		return tt.Bool(a.c == 0)
	}
	if a.op == OpNot {
		return a.args[0]
	}
	return tt.mk(OpNot, 0, 0, "", []*Term{a})
}

func (tt *TermTable) And(as ...*Term) *Term {
	var out []*Term
	seen := map[int]bool{}
	for _, a := range as {
		if a.op == OpConst {
			if a.c == 0 {
				return tt.False
			}
			continue
		}
		if a.op == OpAnd {
			for _, b := range a.args {
				if !seen[b.id] {
					seen[b.id] = true
					out = append(out, b)
				}
			}
			continue
		}
		if !seen[a.id] {
			seen[a.id] = true
			out = append(out, a)
		}
	}
	for _, a := range out {
		if a.op == OpNot && seen[a.args[0].id] {
			return tt.False
		}
	}
	if len(out) == 0 {
		return tt.True
	}
	if len(out) == 1 {
		return out[0]
	}
	return tt.mk(OpAnd, 0, 0, "", out)
}

func (tt *TermTable) Or(as ...*Term) *Term {
	var out []*Term
	seen := map[int]bool{}
	for _, a := range as {
		if a.op == OpConst {
			if a.c != 0 {
				return tt.True
			}
			continue
		}
		if a.op == OpOr {
			for _, b := range a.args {
				if !seen[b.id] {
					seen[b.id] = true
					out = append(out, b)
				}
			}
			continue
		}
		if !seen[a.id] {
			seen[a.id] = true
			out = append(out, a)
		}
	}
	for _, a := range out {
		if a.op == OpNot && seen[a.args[0].id] {
			return tt.True
		}
	}
	if len(out) == 0 {
		return tt.False
	}
	if len(out) == 1 {
		return out[0]
	}
	return tt.mk(OpOr, 0, 0, "", out)
}

func (tt *TermTable) Implies(a, b *Term) *Term { return tt.Or(tt.Not(a), b) }
func (tt *TermTable) Iff(a, b *Term) *Term     { return tt.Eq(a, b) }

func (tt *TermTable) Ite(c, a, b *Term) *Term {
	if c.op == OpConst {
		if c.c != 0 {
			return a
		}
		return b
	}
	if a == b {
		return a
	}
	if a.w == 0 && a.op == OpConst && b.op == OpConst {
		if a.c != 0 {
			return c
		}
		return tt.Not(c)
	}
	if a.w != b.w {
		panic(fmt.Sprintf("ite width mismatch %d %d", a.w, b.w))
	}
	return tt.mk(OpIte, a.w, 0, "", []*Term{c, a, b})
}

func (tt *TermTable) Eq(a, b *Term) *Term {
	if a == b {
		return tt.True
	}
	if a.w != b.w {
		panic(fmt.Sprintf("eq width mismatch %d %d: %s %s", a.w, b.w, a, b))
	}
	if a.op == OpConst && b.op == OpConst {
		return tt.Bool(a.c == b.c)
	}
	if a.w == 0 {
		if a.op == OpConst {
			if a.c != 0 {
				return b
			}
			return tt.Not(b)
		}
		if b.op == OpConst {
			if b.c != 0 {
				return a
			}
			return tt.Not(a)
		}
	}
	// zext(x) == const: decide on high bits
	if b.op == OpConst && a.op == OpZext {
		x := a.args[0]
		if b.c&^mask(x.w) != 0 {
			return tt.False
		}
		return tt.Eq(x, tt.Const(x.w, b.c))
	}
	if a.op == OpConst && b.op == OpZext {
		return tt.Eq(b, a)
	}
	if a.id > b.id {
		a, b = b, a
	}
	return tt.mk(OpEq, 0, 0, "", []*Term{a, b})
}

func (tt *TermTable) cmp(op Op, a, b *Term) *Term {
	if a.w != b.w {
		panic("cmp width mismatch")
	}
	if a.op == OpConst && b.op == OpConst {
		switch op {
		case OpUlt:
			return tt.Bool(a.c < b.c)
		case OpUle:
			return tt.Bool(a.c <= b.c)
		case OpSlt:
			return tt.Bool(a.S() < b.S())
		case OpSle:
			return tt.Bool(a.S() <= b.S())
		}
	}
	if a == b {
		return tt.Bool(op == OpUle || op == OpSle)
	}
	// comparisons on zero-extended values against constants
	if (op == OpUlt || op == OpUle || op == OpSlt || op == OpSle) && a.op == OpZext && b.op == OpConst && a.w > a.args[0].w {
		x := a.args[0]
		bs := b.S()
		if (op == OpSlt || op == OpSle) && bs < 0 {
			return tt.False
		}
		if b.c > mask(x.w) {
			return tt.True
		}
		if op == OpSlt {
			op = OpUlt
		} else if op == OpSle {
			op = OpUle
		}
		return tt.cmp(op, x, tt.Const(x.w, b.c))
	}
	if (op == OpUlt || op == OpUle || op == OpSlt || op == OpSle) && b.op == OpZext && a.op == OpConst && b.w > b.args[0].w {
		x := b.args[0]
		as := a.S()
		if (op == OpSlt || op == OpSle) && as < 0 {
			return tt.True
		}
		if a.c > mask(x.w) {
			return tt.False
		}
		if op == OpSlt {
			op = OpUlt
		} else if op == OpSle {
			op = OpUle
		}
		return tt.cmp(op, tt.Const(x.w, a.c), x)
	}
	if op == OpUlt && b.op == OpConst && b.c == 0 {
		return tt.False
	}
	if op == OpUle && a.op == OpConst && a.c == 0 {
		return tt.True
	}
	return tt.mk(op, 0, 0, "", []*Term{a, b})
}

func (tt *TermTable) Ult(a, b *Term) *Term { return tt.cmp(OpUlt, a, b) }
func (tt *TermTable) Ule(a, b *Term) *Term { return tt.cmp(OpUle, a, b) }
func (tt *TermTable) Slt(a, b *Term) *Term { return tt.cmp(OpSlt, a, b) }
func (tt *TermTable) Sle(a, b *Term) *Term { return tt.cmp(OpSle, a, b) }

func (tt *TermTable) Un(op Op, a *Term) *Term {
	if a.op == OpConst {
		switch op {
		case OpBvNot:
			return tt.Const(a.w, ^a.c)
		case OpBvNeg:
			return tt.Const(a.w, -a.c)
		}
	}
	if a.op == op {
		return a.args[0]
	}
	return tt.mk(op, a.w, 0, "", []*Term{a})
}

func foldBin(op Op, w int, x, y uint64, xs, ys int64) (uint64, bool) {
	switch op {
	case OpBvAnd:
		return x & y, true
	case OpBvOr:
		return x | y, true
	case OpBvXor:
		return x ^ y, true
	case OpAdd:
		return x + y, true
	case OpSub:
		return x - y, true
	case OpMul:
		return x * y, true
	case OpUdiv:
		if y == 0 {
			return mask(w), true
		}
		return x / y, true
	case OpUrem:
		if y == 0 {
			return x, true
		}
		return x % y, true
	case OpSdiv:
		if ys == 0 {
			if xs < 0 {
				return 1, true
			}
			return mask(w), true
		}
		if ys == -1 {
			return uint64(-xs), true
		}
		return uint64(xs / ys), true
	case OpSrem:
		if ys == 0 {
			return x, true
		}
		if ys == -1 {
			return 0, true
		}
		return uint64(xs % ys), true
	case OpShl:
		if y >= uint64(w) {
			return 0, true
		}
		return x << y, true
	case OpLshr:
		if y >= uint64(w) {
			return 0, true
		}
		return x >> y, true
	case OpAshr:
		if y >= uint64(w) {
			if xs < 0 {
				return mask(w), true
			}
			return 0, true
		}
		return uint64(xs >> y), true
	}
	return 0, false
}

func (tt *TermTable) Bin(op Op, a, b *Term) *Term {
	if a.w != b.w {
		panic(fmt.Sprintf("bin width mismatch op %d: %d %d", op, a.w, b.w))
	}
	w := a.w
	if a.op == OpConst && b.op == OpConst {
		if v, ok := foldBin(op, w, a.c, b.c, a.S(), b.S()); ok {
			return tt.Const(w, v)
		}
	}
	// identities
	zero := func(t *Term) bool { return t.op == OpConst && t.c == 0 }
	ones := func(t *Term) bool { return t.op == OpConst && t.c == mask(w) }
	switch op {
	case OpAdd, OpBvOr, OpBvXor:
		if zero(a) {
			return b
		}
		if zero(b) {
			return a
		}
		if op == OpBvOr && (ones(a) || ones(b)) {
			return tt.Const(w, mask(w))
		}
		if op == OpBvOr && a == b {
			return a
		}
		if op == OpBvXor && a == b {
			return tt.Const(w, 0)
		}
		// (x + c1) + c2
		if op == OpAdd && b.op == OpConst && a.op == OpAdd && a.args[1].op == OpConst {
			return tt.Bin(OpAdd, a.args[0], tt.Const(w, a.args[1].c+b.c))
		}
		if op == OpAdd && a.op == OpConst {
			a, b = b, a
		}
	case OpSub:
		if zero(b) {
			return a
		}
		if a == b {
			return tt.Const(w, 0)
		}
		if b.op == OpConst {
			return tt.Bin(OpAdd, a, tt.Const(w, -b.c))
		}
	case OpBvAnd:
		if zero(a) || zero(b) {
			return tt.Const(w, 0)
		}
		if ones(a) {
			return b
		}
		if ones(b) {
			return a
		}
		if a == b {
			return a
		}
		// zext(x) & const where const covers all low bits
		if b.op == OpConst && a.op == OpZext && b.c&mask(a.args[0].w) == mask(a.args[0].w) {
			return a
		}
		if b.op == OpConst && b.c == mask(bits.Len64(b.c)) && bits.Len64(b.c) < w {
			// low-bit mask: zext(extract)
			k := bits.Len64(b.c)
			return tt.Zext(tt.Extract(a, k-1, 0), w)
		}
	case OpMul:
		if zero(a) || zero(b) {
			return tt.Const(w, 0)
		}
		if a.op == OpConst && a.c == 1 {
			return b
		}
		if b.op == OpConst && b.c == 1 {
			return a
		}
	case OpShl, OpLshr, OpAshr:
		if zero(b) {
			return a
		}
		if zero(a) {
			return a
		}
		if b.op == OpConst && b.c >= uint64(w) && op != OpAshr {
			return tt.Const(w, 0)
		}
		if b.op == OpConst && op == OpLshr {
			k := int(b.c)
			return tt.Zext(tt.Extract(a, w-1, k), w)
		}
		if b.op == OpConst && op == OpShl {
			k := int(b.c)
			return tt.Concat(tt.Extract(a, w-1-k, 0), tt.Const(k, 0))
		}
	case OpUdiv, OpSdiv:
		if b.op == OpConst && b.c == 1 {
			return a
		}
	}
	return tt.mk(op, w, 0, "", []*Term{a, b})
}

func (tt *TermTable) Extract(a *Term, hi, lo int) *Term {
	if hi < lo || hi >= a.w || lo < 0 {
		panic(fmt.Sprintf("bad extract %d %d of width %d", hi, lo, a.w))
	}
	if lo == 0 && hi == a.w-1 {
		return a
	}
	nw := hi - lo + 1
	if a.op == OpConst {
		return tt.Const(nw, a.c>>uint(lo))
	}
	switch a.op {
	case OpExtract:
		l0 := int(a.c & 0xffff)
		return tt.Extract(a.args[0], hi+l0, lo+l0)
	case OpZext:
		x := a.args[0]
		if hi < x.w {
			return tt.Extract(x, hi, lo)
		}
		if lo >= x.w {
			return tt.Const(nw, 0)
		}
		return tt.Zext(tt.Extract(x, x.w-1, lo), nw)
	case OpSext:
		x := a.args[0]
		if hi < x.w {
			return tt.Extract(x, hi, lo)
		}
	case OpConcat:
		// args[0] most significant
		pos := a.w
		var parts []*Term
		for _, p := range a.args {
			phi := pos - 1
			plo := pos - p.w
			pos = plo
			if plo > hi || phi < lo {
				continue
			}
			h := hi
			if phi < h {
				h = phi
			}
			l := lo
			if plo > l {
				l = plo
			}
			parts = append(parts, tt.Extract(p, h-plo, l-plo))
		}
		return tt.Concat(parts...)
	case OpBvAnd, OpBvOr, OpBvXor:
		return tt.Bin(a.op, tt.Extract(a.args[0], hi, lo), tt.Extract(a.args[1], hi, lo))
	case OpBvNot:
		return tt.Un(OpBvNot, tt.Extract(a.args[0], hi, lo))
	case OpIte:
		if a.args[1].op == OpConst || a.args[2].op == OpConst {
			return tt.Ite(a.args[0], tt.Extract(a.args[1], hi, lo), tt.Extract(a.args[2], hi, lo))
		}
	case OpAdd, OpSub, OpMul:
		if lo == 0 {
			return tt.Bin(a.op, tt.Extract(a.args[0], hi, 0), tt.Extract(a.args[1], hi, 0))
		}
	}
	return tt.mk(OpExtract, nw, uint64(hi)<<16|uint64(lo), "", []*Term{a})
}

func (tt *TermTable) Concat(parts ...*Term) *Term {
	var out []*Term
	w := 0
	for _, p := range parts {
		if p.w == 0 {
			panic("concat of bool")
		}
		if p.op == OpConcat {
			out = append(out, p.args...)
		} else {
			out = append(out, p)
		}
		w += p.w
	}
	// merge adjacent constants (if total <= 64) and adjacent extracts of same term
	var m []*Term
	for _, p := range out {
		if len(m) > 0 {
			q := m[len(m)-1]
			if q.op == OpConst && p.op == OpConst && q.w+p.w <= 64 {
				m[len(m)-1] = tt.Const(q.w+p.w, q.c<<uint(p.w)|p.c)
				continue
			}
			if q.op == OpExtract && p.op == OpExtract && q.args[0] == p.args[0] {
				qlo := int(q.c & 0xffff)
				qhi := int(q.c >> 16)
				phi := int(p.c >> 16)
				plo := int(p.c & 0xffff)
				if qlo == phi+1 {
					m[len(m)-1] = tt.Extract(q.args[0], qhi, plo)
					continue
				}
			}
			// extract(x, hi, k) ++ x[k-1:0] where p is the whole low part
			if q.op == OpExtract && q.args[0] == p && int(q.c&0xffff) == p.w {
				m[len(m)-1] = tt.Extract(p, int(q.c>>16), 0)
				continue
			}
		}
		m = append(m, p)
	}
	if len(m) == 1 {
		return m[0]
	}
	// leading zero constant => zext
	if m[0].op == OpConst && m[0].c == 0 && w <= 64 {
		rest := tt.Concat(m[1:]...)
		return tt.Zext(rest, w)
	}
	return tt.mk(OpConcat, w, 0, "", m)
}

func (tt *TermTable) Zext(a *Term, w int) *Term {
	if w == a.w {
		return a
	}
	if w < a.w {
		panic("zext narrower")
	}
	if a.op == OpConst {
		return tt.Const(w, a.c)
	}
	if a.op == OpZext {
		return tt.Zext(a.args[0], w)
	}
	return tt.mk(OpZext, w, 0, "", []*Term{a})
}

func (tt *TermTable) Sext(a *Term, w int) *Term {
	if w == a.w {
		return a
	}
	if w < a.w {
		panic("sext narrower")
	}
	if a.op == OpConst {
		return tt.Const(w, uint64(a.S()))
	}
	if a.op == OpZext && a.w > a.args[0].w {
		return tt.Zext(a.args[0], w)
	}
	return tt.mk(OpSext, w, 0, "", []*Term{a})
}

func (tt *TermTable) UF(name string, w int, args ...*Term) *Term {
	return tt.mk(OpUF, w, 0, name, args)
}

func (t *Term) sort() string {
	if t.w == 0 {
		return "Bool"
	}
	return fmt.Sprintf("(_ BitVec %d)", t.w)
}

func (t *Term) String() string {
	var sb strings.Builder
	t.write(&sb, 0)
	return sb.String()
}

func (t *Term) write(sb *strings.Builder, depth int) {
	if depth > 12 {
		fmt.Fprintf(sb, "t%d", t.id)
		return
	}
	switch t.op {
	case OpConst:
		if t.w == 0 {
			if t.c != 0 {
				sb.WriteString("true")
			} else {
				sb.WriteString("false")
			}
		} else {
			fmt.Fprintf(sb, "%d:%d", t.c, t.w)
		}
	case OpVar:
		sb.WriteString(t.name)
	case OpExtract:
		fmt.Fprintf(sb, "(extract[%d:%d] ", t.c>>16, t.c&0xffff)
		t.args[0].write(sb, depth+1)
		sb.WriteString(")")
	case OpZext, OpSext:
		if t.op == OpZext {
			fmt.Fprintf(sb, "(zext%d ", t.w)
		} else {
			fmt.Fprintf(sb, "(sext%d ", t.w)
		}
		t.args[0].write(sb, depth+1)
		sb.WriteString(")")
	case OpUF:
		sb.WriteString("(" + t.name)
		for _, a := range t.args {
			sb.WriteString(" ")
			a.write(sb, depth+1)
		}
		sb.WriteString(")")
	default:
		sb.WriteString("(" + opNames[t.op])
		for _, a := range t.args {
			sb.WriteString(" ")
			a.write(sb, depth+1)
		}
		sb.WriteString(")")
	}
}

// Eval evaluates a term under an assignment of variables and UF applications (by term id).
// Returns (value, ok); ok=false if some leaf has no value.
func (tt *TermTable) Eval(t *Term, env map[int]uint64, memo map[int]uint64) (uint64, bool) {
	if v, ok := memo[t.id]; ok {
		return v, true
	}
	var r uint64
	switch t.op {
	case OpConst:
		return t.c, true
	case OpVar, OpUF:
		v, ok := env[t.id]
		if !ok {
			return 0, false
		}
		return v, true
	default:
		if t.w > 64 {
			return 0, false
		}
		vs := make([]uint64, len(t.args))
		for i, a := range t.args {
			if a.w > 64 {
				return 0, false
			}
			v, ok := tt.Eval(a, env, memo)
			if !ok {
				return 0, false
			}
			vs[i] = v
		}
		sx := func(i int) int64 {
			a := t.args[i]
			return (&Term{w: a.w, c: vs[i]}).S()
		}
		switch t.op {
		case OpNot:
			r = vs[0] ^ 1
		case OpAnd:
			r = 1
			for _, v := range vs {
				r &= v
			}
		case OpOr:
			for _, v := range vs {
				r |= v
			}
		case OpIte:
			if vs[0] != 0 {
				r = vs[1]
			} else {
				r = vs[2]
			}
		case OpEq:
			if vs[0] == vs[1] {
				r = 1
			}
		case OpUlt:
			if vs[0] < vs[1] {
				r = 1
			}
		case OpUle:
			if vs[0] <= vs[1] {
				r = 1
			}
		case OpSlt:
			if sx(0) < sx(1) {
				r = 1
			}
		case OpSle:
			if sx(0) <= sx(1) {
				r = 1
			}
		case OpBvNot:
			r = ^vs[0] & mask(t.w)
		case OpBvNeg:
			r = (-vs[0]) & mask(t.w)
		case OpExtract:
			lo := t.c & 0xffff
			r = (vs[0] >> lo) & mask(t.w)
		case OpConcat:
			for i, a := range t.args {
				r = r<<uint(a.w) | vs[i]
			}
		case OpZext:
			r = vs[0]
		case OpSext:
			r = uint64(sx(0)) & mask(t.w)
		default:
			v, ok := foldBin(t.op, t.w, vs[0], vs[1], sx(0), sx(1))
			if !ok {
				return 0, false
			}
			r = v & mask(t.w)
		}
	}
	memo[t.id] = r
	return r, true
}
