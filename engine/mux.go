package main

// muxTree selects ts[idx] for an in-bounds symbolic idx as a binary multiplexer over the index
// bits (depth log2 n; identical sub-tables collapse through hash-consing).
func (in *Interp) muxTree(ts []*Term, idx *Term, bit int) *Term {
	if len(ts) == 1 {
		return ts[0]
	}
	same := true
	for _, t := range ts[1:] {
		if t != ts[0] {
			same = false
			break
		}
	}
	if same {
		return ts[0]
	}
	if bit < 0 {
		return ts[0]
	}
	half := 1 << uint(bit)
	if len(ts) <= half {
		return in.muxTree(ts, idx, bit-1)
	}
	b := in.tt.Eq(in.tt.Extract(idx, bit, bit), in.tt.Const(1, 1))
	return in.tt.Ite(b, in.muxTree(ts[half:], idx, bit-1), in.muxTree(ts[:half], idx, bit-1))
}
