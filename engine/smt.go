package main

// Persistent SMT-LIB2 solver process (z3 -in / z3-new -in / cvc5 --incremental).
// Terms are hash-consed and immutable, so each non-leaf term is sent once as a top-level
// (define-fun tN ...) and queries are (push)(assert ..)(check-sat)(pop).

import (
	"bufio"
	"fmt"
	"io"
	"os"
	"os/exec"
	"path/filepath"
	"strconv"
	"strings"
	"time"
)

type Solver struct {
	kind    string // z3, z3-new, cvc5
	cmd     *exec.Cmd
	in      io.WriteCloser
	out     *bufio.Reader
	defined map[int]bool
	ufDecl  map[string]bool
	ndefs   int
	timeout int // ms

	Queries  int
	Sat      int
	Unsat    int
	Unknown  int
	Errors   int
	Wall     time.Duration
	LastErr  string
	buf      strings.Builder
	transcript io.Writer
	OneShots    int
	skipInc     int
	levels      []incLevel
	ufLevel     map[string]int
	curLevel    int
	defLog      *[]int
	OneShotWall time.Duration
}

// incTimeout is the per-query budget of the incremental process; harder queries go one-shot.
func (s *Solver) incTimeout() int {
	if s.timeout > 1500 {
		return 1500
	}
	return s.timeout
}

func NewSolver(kind string, timeoutMs int) (*Solver, error) {
	s := &Solver{kind: kind, timeout: timeoutMs}
	if err := s.start(); err != nil {
		return nil, err
	}
	return s, nil
}

func (s *Solver) start() error {
	var cmd *exec.Cmd
	switch s.kind {
	case "z3":
		cmd = exec.Command("/usr/bin/z3", "-in", fmt.Sprintf("-t:%d", s.incTimeout()))
	case "z3-new":
		cmd = exec.Command("z3-new", "-in", fmt.Sprintf("-t:%d", s.incTimeout()))
	case "cvc5":
		cmd = exec.Command("cvc5", "--incremental", "--produce-models", "--lang=smt2", fmt.Sprintf("--tlimit-per=%d", s.timeout))
	default:
		return fmt.Errorf("unknown solver %s", s.kind)
	}
	in, err := cmd.StdinPipe()
	if err != nil {
		return err
	}
	out, err := cmd.StdoutPipe()
	if err != nil {
		return err
	}
	cmd.Stderr = nil
	if err := cmd.Start(); err != nil {
		return err
	}
	s.cmd, s.in, s.out = cmd, in, bufio.NewReaderSize(out, 1<<16)
	s.defined = map[int]bool{}
	s.ufDecl = map[string]bool{}
	s.ndefs = 0
	s.levels = nil
	if s.kind == "cvc5" {
		s.send("(set-logic ALL)\n")
	}
	s.send("(set-option :produce-models true)\n")
	return nil
}

func (s *Solver) Close() {
	if s.cmd != nil {
		s.in.Close()
		s.cmd.Process.Kill()
		s.cmd.Wait()
		s.cmd = nil
	}
}

func (s *Solver) restart() {
	s.Close()
	if err := s.start(); err != nil {
		panic(err)
	}
}

func (s *Solver) send(str string) {
	if s.transcript != nil {
		io.WriteString(s.transcript, str)
	}
	io.WriteString(s.in, str)
}

func symName(n string) string { return "|" + strings.ReplaceAll(n, "|", "_") + "|" }

func (s *Solver) ref(t *Term) string {
	switch t.op {
	case OpConst:
		if t.w == 0 {
			if t.c != 0 {
				return "true"
			}
			return "false"
		}
		return fmt.Sprintf("(_ bv%d %d)", t.c, t.w)
	case OpVar:
		return symName(t.name)
	}
	return "t" + strconv.Itoa(t.id)
}

// define emits declarations/definitions for t and its sub-terms (iteratively, post-order).
func (s *Solver) define(t *Term, sb *strings.Builder) {
	if t.op == OpConst || s.defined[t.id] {
		return
	}
	type fr struct {
		t *Term
		i int
	}
	stack := []fr{{t, 0}}
	for len(stack) > 0 {
		top := &stack[len(stack)-1]
		if top.t.op == OpConst || s.defined[top.t.id] {
			stack = stack[:len(stack)-1]
			continue
		}
		if top.i < len(top.t.args) {
			a := top.t.args[top.i]
			top.i++
			if a.op != OpConst && !s.defined[a.id] {
				stack = append(stack, fr{a, 0})
			}
			continue
		}
		u := top.t
		stack = stack[:len(stack)-1]
		s.defined[u.id] = true
		s.ndefs++
		if s.defLog != nil {
			*s.defLog = append(*s.defLog, u.id)
		}
		switch u.op {
		case OpVar:
			fmt.Fprintf(sb, "(declare-const %s %s)\n", symName(u.name), u.sort())
			continue
		case OpUF:
			key := u.name
			if !s.ufDecl[key] {
				s.ufDecl[key] = true
				if s.ufLevel == nil {
					s.ufLevel = map[string]int{}
				}
				s.ufLevel[key] = s.curLevel
				fmt.Fprintf(sb, "(declare-fun %s (", symName(u.name))
				for _, a := range u.args {
					sb.WriteString(a.sort() + " ")
				}
				fmt.Fprintf(sb, ") %s)\n", u.sort())
			}
			fmt.Fprintf(sb, "(define-fun t%d () %s ", u.id, u.sort())
			if len(u.args) == 0 {
				sb.WriteString(symName(u.name))
			} else {
				sb.WriteString("(" + symName(u.name))
				for _, a := range u.args {
					sb.WriteString(" " + s.ref(a))
				}
				sb.WriteString(")")
			}
			sb.WriteString(")\n")
			continue
		}
		fmt.Fprintf(sb, "(define-fun t%d () %s ", u.id, u.sort())
		switch u.op {
		case OpExtract:
			fmt.Fprintf(sb, "((_ extract %d %d) %s)", u.c>>16, u.c&0xffff, s.ref(u.args[0]))
		case OpZext:
			fmt.Fprintf(sb, "((_ zero_extend %d) %s)", u.w-u.args[0].w, s.ref(u.args[0]))
		case OpSext:
			fmt.Fprintf(sb, "((_ sign_extend %d) %s)", u.w-u.args[0].w, s.ref(u.args[0]))
		default:
			sb.WriteString("(" + opNames[u.op])
			for _, a := range u.args {
				sb.WriteString(" " + s.ref(a))
			}
			sb.WriteString(")")
		}
		sb.WriteString(")\n")
	}
}

func (s *Solver) readLine() (string, error) {
	line, err := s.out.ReadString('\n')
	return strings.TrimSpace(line), err
}

// Check decides satisfiability of the conjunction. If wantVals is non-empty and the
// result is sat, the values of those terms (width <= 64) are returned keyed by term id.
func (s *Solver) checkFlat(assertions []*Term, wantVals []*Term) (string, map[int]uint64) {
	t0 := time.Now()
	defer func() { s.Wall += time.Since(t0) }()
	s.Queries++
	wide := false
	for _, a := range assertions {
		if a.wide {
			wide = true
			break
		}
	}
	if (s.skipInc > 0 || wide) && s.kind != "cvc5" {
		// the incremental core recently gave up on this kind of query: go straight to one-shot
		if s.skipInc > 0 {
			s.skipInc--
		}
		r, v := s.oneShot(assertions, wantVals, s.timeout)
		switch r {
		case "sat":
			s.Sat++
		case "unsat":
			s.Unsat++
		default:
			s.Unknown++
		}
		return r, v
	}
	if s.ndefs > 400000 {
		s.restart()
	}
	var sb strings.Builder
	for _, a := range assertions {
		s.define(a, &sb)
	}
	for _, v := range wantVals {
		s.define(v, &sb)
	}
	sb.WriteString("(push 1)\n")
	for _, a := range assertions {
		fmt.Fprintf(&sb, "(assert %s)\n", s.ref(a))
	}
	sb.WriteString("(check-sat)\n")
	s.send(sb.String())
	res := ""
	for {
		line, err := s.readLine()
		if err != nil {
			s.Errors++
			s.LastErr = "solver died: " + err.Error()
			s.restart()
			s.Unknown++
			return "unknown", nil
		}
		if line == "" {
			continue
		}
		if strings.HasPrefix(line, "(error") {
			s.Errors++
			s.LastErr = line
			res = "error"
			continue
		}
		if line == "sat" || line == "unsat" || line == "unknown" || line == "timeout" {
			if res == "" {
				res = line
			}
			break
		}
		if strings.HasPrefix(line, "unsupported") || strings.HasPrefix(line, ";") {
			continue
		}
		s.LastErr = "unexpected solver output: " + line
		s.Errors++
		res = "error"
	}
	var vals map[int]uint64
	if res == "sat" && len(wantVals) > 0 {
		vals = map[int]uint64{}
		// chunk to keep lines bounded
		for i := 0; i < len(wantVals); i += 200 {
			j := i + 200
			if j > len(wantVals) {
				j = len(wantVals)
			}
			var q strings.Builder
			q.WriteString("(get-value (")
			for _, v := range wantVals[i:j] {
				q.WriteString(s.ref(v) + " ")
			}
			q.WriteString("))\n")
			s.send(q.String())
			txt, err := s.readSexp()
			if err != nil || strings.HasPrefix(txt, "(error") {
				s.Errors++
				s.LastErr = "get-value: " + txt
				break
			}
			parsed := parseValues(txt)
			if len(parsed) != j-i {
				s.Errors++
				s.LastErr = fmt.Sprintf("get-value parse: got %d want %d: %s", len(parsed), j-i, txt)
				break
			}
			for k, v := range wantVals[i:j] {
				vals[v.id] = parsed[k]
			}
		}
	}
	s.send("(pop 1)\n")
	if res != "sat" && res != "unsat" && s.kind != "cvc5" {
		// incremental core gave up: decide in a fresh process with the full tactic pipeline
		s.skipInc = 40
		r2, v2 := s.oneShot(assertions, wantVals, s.timeout)
		if r2 != "unknown" {
			res, vals = r2, v2
		}
	}
	if d := os.Getenv("GOSMT_DUMP_SLOW"); d != "" && (time.Since(t0) > 2*time.Second || res == "unknown") {
		os.MkdirAll(d, 0o755)
		os.WriteFile(filepath.Join(d, fmt.Sprintf("q%d-%d-%s.smt2", os.Getpid(), s.Queries, res)), []byte(Standalone(assertions, "")), 0o644)
	}
	switch res {
	case "sat":
		s.Sat++
	case "unsat":
		s.Unsat++
	default:
		s.Unknown++
		if res == "error" || res == "timeout" {
			res = "unknown"
		}
	}
	return res, vals
}

// readSexp reads one balanced s-expression from the solver.
func (s *Solver) readSexp() (string, error) {
	var sb strings.Builder
	depth := 0
	started := false
	inBar := false
	for {
		b, err := s.out.ReadByte()
		if err != nil {
			return sb.String(), err
		}
		sb.WriteByte(b)
		if inBar {
			if b == '|' {
				inBar = false
			}
			continue
		}
		switch b {
		case '|':
			inBar = true
		case '(':
			depth++
			started = true
		case ')':
			depth--
		}
		if started && depth == 0 {
			return strings.TrimSpace(sb.String()), nil
		}
	}
}

// parseValues extracts the value literals, in order, from a get-value answer
// ((name val) (name val) ...). Names are either |quoted| or tN.
func parseValues(txt string) []uint64 {
	var out []uint64
	i := 0
	n := len(txt)
	skipWS := func() {
		for i < n && (txt[i] == ' ' || txt[i] == '\n' || txt[i] == '\t' || txt[i] == '\r') {
			i++
		}
	}
	skipWS()
	if i >= n || txt[i] != '(' {
		return nil
	}
	i++
	for {
		skipWS()
		if i >= n || txt[i] == ')' {
			break
		}
		if txt[i] != '(' {
			return nil
		}
		i++
		skipWS()
		// name
		if txt[i] == '|' {
			i++
			for i < n && txt[i] != '|' {
				i++
			}
			i++
		} else if txt[i] == '(' {
			// inline constant expression as name, e.g. (_ bv5 8)
			d := 0
			for i < n {
				if txt[i] == '(' {
					d++
				} else if txt[i] == ')' {
					d--
					if d == 0 {
						i++
						break
					}
				}
				i++
			}
		} else {
			for i < n && txt[i] != ' ' && txt[i] != '\n' {
				i++
			}
		}
		skipWS()
		// value
		var v uint64
		switch {
		case strings.HasPrefix(txt[i:], "#x"):
			j := i + 2
			for j < n && isHex(txt[j]) {
				j++
			}
			h := txt[i+2 : j]
			if len(h) > 16 {
				h = h[len(h)-16:]
			}
			v, _ = strconv.ParseUint(h, 16, 64)
			i = j
		case strings.HasPrefix(txt[i:], "#b"):
			j := i + 2
			for j < n && (txt[j] == '0' || txt[j] == '1') {
				j++
			}
			bts := txt[i+2 : j]
			if len(bts) > 64 {
				bts = bts[len(bts)-64:]
			}
			v, _ = strconv.ParseUint(bts, 2, 64)
			i = j
		case strings.HasPrefix(txt[i:], "true"):
			v = 1
			i += 4
		case strings.HasPrefix(txt[i:], "false"):
			v = 0
			i += 5
		case strings.HasPrefix(txt[i:], "(_ bv"):
			j := i + 5
			k := j
			for k < n && txt[k] >= '0' && txt[k] <= '9' {
				k++
			}
			v, _ = strconv.ParseUint(txt[j:k], 10, 64)
			for k < n && txt[k] != ')' {
				k++
			}
			i = k + 1
		default:
			return nil
		}
		skipWS()
		if i >= n || txt[i] != ')' {
			return nil
		}
		i++
		out = append(out, v)
	}
	return out
}

func isHex(b byte) bool {
	return (b >= '0' && b <= '9') || (b >= 'a' && b <= 'f') || (b >= 'A' && b <= 'F')
}

// Standalone renders a self-contained SMT-LIB2 script for the conjunction (for cross-checking
// with a second solver).
func Standalone(assertions []*Term, logic string) string {
	tmp := &Solver{defined: map[int]bool{}, ufDecl: map[string]bool{}}
	var sb strings.Builder
	if logic != "" {
		fmt.Fprintf(&sb, "(set-logic %s)\n", logic)
	}
	for _, a := range assertions {
		tmp.define(a, &sb)
	}
	for _, a := range assertions {
		fmt.Fprintf(&sb, "(assert %s)\n", tmp.ref(a))
	}
	sb.WriteString("(check-sat)\n")
	return sb.String()
}
