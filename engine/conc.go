package main

import (
	"fmt"
	"go/types"

	"golang.org/x/tools/go/ssa"
)

// ---------------------------------------------------------------- scheduler

func (in *Interp) gReady(g *G) bool {
	switch g.status {
	case gRunnable:
		return true
	case gBlocked:
		if g.waitQuiesce {
			return false
		}
		if g.delivered != nil {
			return true
		}
		if g.waitReady != nil {
			return g.waitReady()
		}
	}
	return false
}

func (in *Interp) runLoop() {
	main := in.gs[0]
	for main.status != gDone {
		g := in.cur
		if g == nil || !in.gReady(g) {
			g = in.pickNext()
			if g == nil {
				panic(pathEnd{"deadlock", "all goroutines blocked: " + in.blockedSummary()})
			}
			in.cur = g
		}
		if g.status == gBlocked {
			g.status = gRunnable
			g.waitReady = nil
		}
		in.step(g)
	}
}

func (in *Interp) blockedSummary() string {
	s := ""
	for _, g := range in.gs {
		if g.status == gBlocked {
			s += fmt.Sprintf("[%s: %s] ", g.name, g.waitDesc)
		}
	}
	return s
}

func (in *Interp) readyOthers(except *G) []*G {
	var out []*G
	for _, g := range in.gs {
		if g != except && in.gReady(g) {
			out = append(out, g)
		}
	}
	return out
}

// pickNext chooses a goroutine to run when the current one cannot continue.
func (in *Interp) pickNext() *G {
	cands := in.readyOthers(nil)
	if len(cands) == 0 {
		// wake a goroutine waiting for quiescence
		for _, g := range in.gs {
			if g.status == gBlocked && g.waitQuiesce {
				g.waitQuiesce = false
				g.status = gRunnable
				g.quiesced = true
				return g
			}
		}
		return nil
	}
	k := 0
	if len(cands) > 1 && in.freeSwitch {
		k = in.choose(len(cands), "sched")
	}
	in.sched = append(in.sched, "run:"+cands[k].name)
	return cands[k]
}

// schedPoint is called at the start of a synchronisation operation. It returns true if the
// current goroutine was preempted (the caller must return without performing the operation;
// the instruction will be re-executed later).
func (in *Interp) schedPoint(what string) bool {
	g := in.cur
	if g.skipSched {
		g.skipSched = false
		return false
	}
	if in.preempt <= 0 || in.syncDepth > 0 || in.lenient > 0 {
		return false
	}
	cands := in.readyOthers(g)
	if len(cands) == 0 {
		return false
	}
	k := in.choose(1+len(cands), "preempt")
	if k == 0 {
		return false
	}
	in.preempt--
	g.skipSched = true
	in.cur = cands[k-1]
	in.yielded = true
	in.sched = append(in.sched, fmt.Sprintf("preempt:%s@%s->%s", g.name, what, cands[k-1].name))
	return true
}

func (in *Interp) block(desc string, ready func() bool) {
	g := in.cur
	if in.syncDepth > 0 {
		in.abort("blocking operation inside synchronous callback: %s", desc)
	}
	g.status = gBlocked
	g.waitDesc = desc
	g.waitReady = ready
}

func (in *Interp) execGo(g *G, fr *Frame, x *ssa.Go) {
	cc := &x.Call
	ng := &G{id: len(in.gs), name: fmt.Sprintf("g%d", len(in.gs))}
	var fn *ssa.Function
	var env, args []Value
	if cc.IsInvoke() {
		recv := in.get(fr, cc.Value).(IfaceV)
		if recv.t == nil {
			in.goPanic("go of method on nil interface")
			return
		}
		fn = in.lookupMethod(recv.t, cc.Method)
		args = append(args, recv.v)
	} else if sf := cc.StaticCallee(); sf != nil {
		fn = sf
		if mc, ok := cc.Value.(*ssa.MakeClosure); ok {
			for _, b := range mc.Bindings {
				env = append(env, in.get(fr, b))
			}
		}
	} else {
		fv, _ := in.get(fr, cc.Value).(*FuncV)
		if fv == nil {
			in.goPanic("go of nil func")
			return
		}
		if fv.nat != nil {
			for _, a := range cc.Args {
				args = append(args, in.get(fr, a))
			}
			fv.nat(in, args)
			fr.ip++
			return
		}
		fn = fv.fn
		env = fv.env
	}
	for _, a := range cc.Args {
		args = append(args, in.get(fr, a))
	}
	ng.name = fmt.Sprintf("g%d:%s", ng.id, fn.Name())
	in.gs = append(in.gs, ng)
	// intrinsic as goroutine body: run immediately
	saved := in.cur
	in.cur = ng
	if _, handled := in.tryIntrinsic(fn, args, nil); handled {
		ng.status = gDone
		in.cur = saved
		fr.ip++
		return
	}
	in.pushFrame(ng, fn, args, env, retDiscard, nil)
	in.cur = saved
	fr.ip++
}

// spawn starts a named goroutine running fv (used by rt.Go).
func (in *Interp) spawn(name string, fv *FuncV, args []Value) *G {
	ng := &G{id: len(in.gs), name: name}
	in.gs = append(in.gs, ng)
	in.pushFrame(ng, fv.fn, args, fv.env, retDiscard, nil)
	return ng
}

// ---------------------------------------------------------------- channels

func (in *Interp) findWaiter(ch *ChanObj, send bool) (*G, int) {
	for _, g := range in.gs {
		if g == in.cur || g.status != gBlocked || g.delivered != nil {
			continue
		}
		for i, w := range g.waits {
			if w.ch == ch && w.send == send {
				return g, i
			}
		}
	}
	return nil, -1
}

func (in *Interp) canRecv(ch *ChanObj) bool {
	if ch == nil {
		return false
	}
	if len(ch.buf) > 0 || ch.closed {
		return true
	}
	g, _ := in.findWaiter(ch, true)
	return g != nil
}

func (in *Interp) canSend(ch *ChanObj) bool {
	if ch == nil {
		return false
	}
	if ch.closed || len(ch.buf) < ch.cap {
		return true
	}
	g, _ := in.findWaiter(ch, false)
	return g != nil
}

// doRecvNow performs a receive that is known to be possible.
func (in *Interp) doRecvNow(ch *ChanObj) (Value, bool) {
	if len(ch.buf) > 0 {
		v := ch.buf[0]
		ch.buf = ch.buf[1:]
		// a blocked sender can now fill the buffer
		if sg, i := in.findWaiter(ch, true); sg != nil {
			ch.buf = append(ch.buf, sg.waits[i].val)
			sg.delivered = &delivery{idx: sg.waits[i].idx}
			sg.waits = nil
		}
		return v, true
	}
	if sg, i := in.findWaiter(ch, true); sg != nil {
		v := sg.waits[i].val
		sg.delivered = &delivery{idx: sg.waits[i].idx}
		sg.waits = nil
		return v, true
	}
	if ch.closed {
		return in.zero(ch.elem), false
	}
	in.abort("doRecvNow: not ready")
	return nil, false
}

// doSendNow performs a send that is known to be possible. Returns false if it panicked.
func (in *Interp) doSendNow(ch *ChanObj, v Value) bool {
	if ch.closed {
		in.goPanic("send on closed channel")
		return false
	}
	if rg, i := in.findWaiter(ch, false); rg != nil {
		rg.delivered = &delivery{idx: rg.waits[i].idx, val: v, ok: true}
		rg.waits = nil
		return true
	}
	if len(ch.buf) < ch.cap {
		ch.buf = append(ch.buf, v)
		return true
	}
	in.abort("doSendNow: not ready")
	return false
}

func (in *Interp) chanClose(ch *ChanObj) {
	if ch == nil {
		in.goPanic("close of nil channel")
		return
	}
	if ch.closed {
		in.goPanic("close of closed channel")
		return
	}
	ch.closed = true
}

func (in *Interp) execSend(g *G, fr *Frame, x *ssa.Send) {
	ch := in.get(fr, x.Chan).(*ChanObj)
	if g.delivered != nil {
		g.delivered = nil
		g.waits = nil
		fr.ip++
		return
	}
	if in.schedPoint("send") {
		in.yielded = false // this instruction is re-executed; the flag is only for intrinsic calls
		return
	}
	if ch != nil && in.canSend(ch) {
		if in.doSendNow(ch, copyVal(in.get(fr, x.X))) {
			fr.ip++
		}
		return
	}
	g.waits = []waitCase{{ch: ch, send: true, val: copyVal(in.get(fr, x.X))}}
	in.block("chan send", func() bool { return ch != nil && in.canSendFor(g, ch) })
}

// canSendFor/canRecvFor evaluate readiness from the point of view of blocked goroutine g.
func (in *Interp) canSendFor(g *G, ch *ChanObj) bool {
	saved := in.cur
	in.cur = g
	r := in.canSend(ch)
	in.cur = saved
	return r
}

func (in *Interp) canRecvFor(g *G, ch *ChanObj) bool {
	saved := in.cur
	in.cur = g
	r := in.canRecv(ch)
	in.cur = saved
	return r
}

func (in *Interp) execRecv(g *G, fr *Frame, x *ssa.UnOp) {
	ch := in.get(fr, x.X).(*ChanObj)
	finish := func(v Value, ok bool) {
		if x.CommaOk {
			in.set(fr, x, TupleV{v, in.tt.Bool(ok)})
		} else {
			in.set(fr, x, v)
		}
		fr.ip++
	}
	if g.delivered != nil {
		d := g.delivered
		g.delivered = nil
		g.waits = nil
		finish(d.val, d.ok)
		return
	}
	if in.schedPoint("recv") {
		in.yielded = false // this instruction is re-executed; the flag is only for intrinsic calls
		return
	}
	if ch != nil && in.canRecv(ch) {
		v, ok := in.doRecvNow(ch)
		finish(v, ok)
		return
	}
	g.waits = []waitCase{{ch: ch, send: false}}
	in.block("chan recv", func() bool { return ch != nil && in.canRecvFor(g, ch) })
}

func (in *Interp) execSelect(g *G, fr *Frame, x *ssa.Select) {
	tt := in.tt
	nrecv := 0
	for _, st := range x.States {
		if st.Dir == types.RecvOnly {
			nrecv++
		}
	}
	finish := func(idx int, rv Value, rok bool) {
		out := make(TupleV, 2+nrecv)
		out[0] = tt.Const(64, uint64(int64(idx)))
		out[1] = tt.Bool(rok)
		k := 0
		for i, st := range x.States {
			if st.Dir == types.RecvOnly {
				et := types.Unalias(st.Chan.Type()).Underlying().(*types.Chan).Elem()
				if i == idx && rv != nil {
					out[2+k] = rv
				} else {
					out[2+k] = in.zero(et)
				}
				k++
			}
		}
		in.set(fr, x, out)
		fr.ip++
	}
	if g.delivered != nil {
		d := g.delivered
		g.delivered = nil
		g.waits = nil
		finish(d.idx, d.val, d.ok)
		return
	}
	if in.schedPoint("select") {
		in.yielded = false // this instruction is re-executed; the flag is only for intrinsic calls
		return
	}
	var ready []int
	chans := make([]*ChanObj, len(x.States))
	for i, st := range x.States {
		ch, _ := in.get(fr, st.Chan).(*ChanObj)
		chans[i] = ch
		if ch == nil {
			continue
		}
		if st.Dir == types.SendOnly {
			if in.canSend(ch) {
				ready = append(ready, i)
			}
		} else if in.canRecv(ch) {
			ready = append(ready, i)
		}
	}
	if len(ready) > 0 {
		k := 0
		if len(ready) > 1 {
			k = in.choose(len(ready), "select")
		}
		i := ready[k]
		st := x.States[i]
		if st.Dir == types.SendOnly {
			if in.doSendNow(chans[i], copyVal(in.get(fr, st.Send))) {
				finish(i, nil, false)
			}
		} else {
			v, ok := in.doRecvNow(chans[i])
			finish(i, v, ok)
		}
		return
	}
	if !x.Blocking {
		finish(-1, nil, false)
		return
	}
	g.waits = nil
	for i, st := range x.States {
		wc := waitCase{ch: chans[i], send: st.Dir == types.SendOnly, idx: i}
		if wc.send {
			wc.val = copyVal(in.get(fr, st.Send))
		}
		if chans[i] != nil {
			g.waits = append(g.waits, wc)
		}
	}
	waits := g.waits
	in.block("select", func() bool {
		for _, w := range waits {
			if w.send {
				if in.canSendFor(g, w.ch) {
					return true
				}
			} else if in.canRecvFor(g, w.ch) {
				return true
			}
		}
		return false
	})
}
