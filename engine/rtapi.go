package main

import (
	"fmt"

	"golang.org/x/tools/go/ssa"
)

const rtPkgPath = "github.com/aperturerobotics/bifrost/zz_verifrt"

func (in *Interp) tagSeq(tag string) string {
	n := in.ninput[tag]
	in.ninput[tag] = n + 1
	return fmt.Sprintf("%s#%d", tag, n)
}

func (in *Interp) concStr(v Value, what string) string {
	s, ok := v.(StrV).Concrete()
	if !ok {
		in.abort("%s must be a constant string", what)
	}
	return s
}

func (in *Interp) freshInt(tag string, w int) *Term {
	name := in.tagSeq(tag)
	var t *Term
	if w == 0 {
		// booleans are recorded as 1-bit ints
		b := in.tt.Var("in!"+name, 1)
		in.inputs = append(in.inputs, inputRec{tag: name, kind: "int", w: 1, terms: []*Term{b}})
		return in.tt.Eq(b, in.tt.Const(1, 1))
	}
	t = in.tt.Var("in!"+name, w)
	in.inputs = append(in.inputs, inputRec{tag: name, kind: "int", w: w, terms: []*Term{t}})
	return t
}

func (in *Interp) freshBytes(tag string, lens []int) []*Term {
	name := in.tagSeq(tag)
	k := in.choose(len(lens), "len:"+name)
	n := lens[k]
	ts := make([]*Term, n)
	for i := range ts {
		ts[i] = in.tt.Var(fmt.Sprintf("in!%s[%d]", name, i), 8)
	}
	in.inputs = append(in.inputs, inputRec{tag: name, kind: "bytes", terms: ts, n: n})
	return ts
}

func lensRange(in *Interp, lo, hi *Term) []int {
	l, h := int(lo.S()), int(hi.S())
	var out []int
	for i := l; i <= h; i++ {
		out = append(out, i)
	}
	if len(out) == 0 {
		in.abort("empty length range %d..%d", l, h)
	}
	return out
}

func lensList(in *Interp, s SliceV) []int {
	var out []int
	for i := 0; i < s.len; i++ {
		out = append(out, int(s.base.s[s.off+i].(*Term).S()))
	}
	if len(out) == 0 {
		in.abort("empty length list")
	}
	return out
}

func init() {
	r := func(name string, f intrinsicFn) { reg(rtPkgPath+"."+name, f) }
	r("Tier", func(in *Interp, fn *ssa.Function, args []Value, site ssa.Value) Value {
		return in.tt.Const(64, uint64(in.ex.tier))
	})
	r("Bool", func(in *Interp, fn *ssa.Function, args []Value, site ssa.Value) Value {
		return in.freshInt(in.concStr(args[0], "tag"), 0)
	})
	for name, w := range map[string]int{"U8": 8, "U16": 16, "U32": 32, "U64": 64, "I32": 32, "I64": 64, "Int": 64} {
		w := w
		r(name, func(in *Interp, fn *ssa.Function, args []Value, site ssa.Value) Value {
			return in.freshInt(in.concStr(args[0], "tag"), w)
		})
	}
	r("IntRange", func(in *Interp, fn *ssa.Function, args []Value, site ssa.Value) Value {
		name := in.tagSeq(in.concStr(args[0], "tag"))
		lo, hi := args[1].(*Term).S(), args[2].(*Term).S()
		if hi < lo {
			in.abort("IntRange: empty range")
		}
		k := in.choose(int(hi-lo+1), name)
		in.inputs = append(in.inputs, inputRec{tag: name, kind: "choice", n: k})
		return in.tt.Const(64, uint64(lo+int64(k)))
	})
	r("Choose", func(in *Interp, fn *ssa.Function, args []Value, site ssa.Value) Value {
		name := in.tagSeq(in.concStr(args[0], "tag"))
		n := int(args[1].(*Term).S())
		if n <= 0 {
			in.abort("Choose: n <= 0")
		}
		k := in.choose(n, name)
		in.inputs = append(in.inputs, inputRec{tag: name, kind: "choice", n: k})
		return in.tt.Const(64, uint64(k))
	})
	r("Bytes", func(in *Interp, fn *ssa.Function, args []Value, site ssa.Value) Value {
		ts := in.freshBytes(in.concStr(args[0], "tag"), lensRange(in, args[1].(*Term), args[2].(*Term)))
		return in.bytesToSlice(ts)
	})
	r("BytesOfLen", func(in *Interp, fn *ssa.Function, args []Value, site ssa.Value) Value {
		ts := in.freshBytes(in.concStr(args[0], "tag"), lensList(in, args[1].(SliceV)))
		return in.bytesToSlice(ts)
	})
	r("String", func(in *Interp, fn *ssa.Function, args []Value, site ssa.Value) Value {
		ts := in.freshBytes(in.concStr(args[0], "tag"), lensRange(in, args[1].(*Term), args[2].(*Term)))
		return StrV{ts}
	})
	r("StringOfLen", func(in *Interp, fn *ssa.Function, args []Value, site ssa.Value) Value {
		ts := in.freshBytes(in.concStr(args[0], "tag"), lensList(in, args[1].(SliceV)))
		return StrV{ts}
	})
	r("Assume", func(in *Interp, fn *ssa.Function, args []Value, site ssa.Value) Value {
		in.assume(args[0].(*Term))
		return nil
	})
	r("Assert", func(in *Interp, fn *ssa.Function, args []Value, site ssa.Value) Value {
		label := in.concStr(args[0], "label")
		c := args[1].(*Term)
		in.asserted[label] = true
		if !c.IsConst() {
			in.ex.mu.Lock()
			in.ex.res.AssertSym[label]++
			in.ex.mu.Unlock()
		}
		if !in.decide(c) {
			in.violation("assert:"+label, "assertion failed: "+label, true, in.callerSite())
			panic(pathEnd{"done", "assert failed"})
		}
		return nil
	})
	r("Reach", func(in *Interp, fn *ssa.Function, args []Value, site ssa.Value) Value {
		in.reached[in.concStr(args[0], "label")] = true
		return nil
	})
	r("Cover", func(in *Interp, fn *ssa.Function, args []Value, site ssa.Value) Value {
		label := in.concStr(args[0], "label")
		c := args[1].(*Term)
		// satisfiable on this path?
		if c.IsConst() {
			if c.c != 0 {
				in.reached["cover:"+label] = true
			}
			return nil
		}
		if in.query(c) == "sat" {
			in.reached["cover:"+label] = true
		}
		return nil
	})
	r("KnownFinding", func(in *Interp, fn *ssa.Function, args []Value, site ssa.Value) Value {
		id := in.concStr(args[0], "id")
		c := args[1].(*Term)
		taken := in.decide(c)
		if taken {
			if _, ok := in.ex.cfg.Known[id]; ok {
				in.knownActive = append(in.knownActive, id)
			}
		}
		return in.tt.Bool(taken)
	})
	r("ExpectPanic", func(in *Interp, fn *ssa.Function, args []Value, site ssa.Value) Value {
		in.expectPanic = true
		return nil
	})
	r("AllocLimit", func(in *Interp, fn *ssa.Function, args []Value, site ssa.Value) Value {
		in.allocLimit = args[0].(*Term).S()
		return nil
	})
	r("Unwind", func(in *Interp, fn *ssa.Function, args []Value, site ssa.Value) Value {
		in.unwindOverride = int(args[0].(*Term).S())
		return nil
	})
	r("SchedBound", func(in *Interp, fn *ssa.Function, args []Value, site ssa.Value) Value {
		in.preempt = int(args[0].(*Term).S())
		in.freeSwitch = args[1].(*Term).c != 0
		return nil
	})
	r("MapOrder", func(in *Interp, fn *ssa.Function, args []Value, site ssa.Value) Value {
		in.mapOrder = args[0].(*Term).c != 0
		return nil
	})
	r("Go", func(in *Interp, fn *ssa.Function, args []Value, site ssa.Value) Value {
		name := in.concStr(args[0], "name")
		fv := args[1].(*FuncV)
		in.spawn(name, fv, nil)
		return nil
	})
	r("Quiesce", func(in *Interp, fn *ssa.Function, args []Value, site ssa.Value) Value {
		g := in.cur
		if g.quiesced {
			g.quiesced = false
			return nil
		}
		if len(in.readyOthers(g)) == 0 {
			return nil
		}
		g.status = gBlocked
		g.waitQuiesce = true
		g.waitDesc = "Quiesce"
		return nil
	})
	r("Yield", func(in *Interp, fn *ssa.Function, args []Value, site ssa.Value) Value {
		in.schedPoint("Yield")
		return nil
	})
	r("Log", func(in *Interp, fn *ssa.Function, args []Value, site ssa.Value) Value {
		s := in.concStr(args[0], "stream")
		in.logs[s] = append(in.logs[s], args[1])
		return nil
	})
	r("Logged", func(in *Interp, fn *ssa.Function, args []Value, site ssa.Value) Value {
		s := in.concStr(args[0], "stream")
		l := in.logs[s]
		ag := &Agg{s: make([]Value, len(l))}
		copy(ag.s, l)
		return SliceV{ag, 0, len(l), len(l)}
	})
	r("LogLen", func(in *Interp, fn *ssa.Function, args []Value, site ssa.Value) Value {
		return in.tt.Const(64, uint64(len(in.logs[in.concStr(args[0], "stream")])))
	})
	r("SameBacking", func(in *Interp, fn *ssa.Function, args []Value, site ssa.Value) Value {
		a, b := args[0].(SliceV), args[1].(SliceV)
		if a.cap == 0 || b.cap == 0 || a.base == nil || b.base == nil {
			return in.tt.False
		}
		return in.tt.Bool(a.base == b.base && a.off == b.off)
	})
}

func (in *Interp) callerSite() string {
	g := in.cur
	if g == nil || len(g.stack) == 0 {
		return "?"
	}
	fr := g.stack[len(g.stack)-1]
	return fr.fn.Name() + "@" + in.posOf(fr)
}
