package main

import "go/types"

// index64 widens an index operand to 64 bits according to the signedness of its static type.
func (in *Interp) index64(t *Term, typ types.Type) *Term {
	if t.w == 64 {
		return t
	}
	_, signed, _ := intInfo(typ)
	return in.resize(t, 64, signed)
}

// decodeRuneSym decodes the first UTF-8 sequence of bs (non-empty) by deciding on byte classes,
// exactly as utf8.DecodeRuneInString does (Unicode Table 3-7); invalid input yields U+FFFD, size 1.
func (in *Interp) decodeRuneSym(bs []*Term) (*Term, int) {
	tt := in.tt
	c8 := func(v uint64) *Term { return tt.Const(8, v) }
	inRange := func(b *Term, lo, hi uint64) bool {
		return in.decide(tt.And(tt.Ule(c8(lo), b), tt.Ule(b, c8(hi))))
	}
	z := func(b *Term, maskBits uint64) *Term {
		return tt.Zext(tt.Bin(OpBvAnd, b, c8(maskBits)), 32)
	}
	shl := func(t *Term, k uint64) *Term { return tt.Bin(OpShl, t, tt.Const(32, k)) }
	or := func(a, b *Term) *Term { return tt.Bin(OpBvOr, a, b) }
	bad := tt.Const(32, 0xFFFD)
	b0 := bs[0]
	if in.decide(tt.Ult(b0, c8(0x80))) {
		return tt.Zext(b0, 32), 1
	}
	if inRange(b0, 0xC2, 0xDF) {
		if len(bs) < 2 || !inRange(bs[1], 0x80, 0xBF) {
			return bad, 1
		}
		return or(shl(z(b0, 0x1f), 6), z(bs[1], 0x3f)), 2
	}
	if inRange(b0, 0xE0, 0xEF) {
		if len(bs) < 3 {
			return bad, 1
		}
		lo, hi := uint64(0x80), uint64(0xBF)
		if in.decide(tt.Eq(b0, c8(0xE0))) {
			lo = 0xA0
		} else if in.decide(tt.Eq(b0, c8(0xED))) {
			hi = 0x9F
		}
		if !inRange(bs[1], lo, hi) || !inRange(bs[2], 0x80, 0xBF) {
			return bad, 1
		}
		return or(or(shl(z(b0, 0x0f), 12), shl(z(bs[1], 0x3f), 6)), z(bs[2], 0x3f)), 3
	}
	if inRange(b0, 0xF0, 0xF4) {
		if len(bs) < 4 {
			return bad, 1
		}
		lo, hi := uint64(0x80), uint64(0xBF)
		if in.decide(tt.Eq(b0, c8(0xF0))) {
			lo = 0x90
		} else if in.decide(tt.Eq(b0, c8(0xF4))) {
			hi = 0x8F
		}
		if !inRange(bs[1], lo, hi) || !inRange(bs[2], 0x80, 0xBF) || !inRange(bs[3], 0x80, 0xBF) {
			return bad, 1
		}
		return or(or(or(shl(z(b0, 0x07), 18), shl(z(bs[1], 0x3f), 12)), shl(z(bs[2], 0x3f), 6)), z(bs[3], 0x3f)), 4
	}
	return bad, 1
}
