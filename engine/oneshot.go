package main

// One-shot fallback: z3's incremental core (push/pop) skips the preprocessing / bit-blasting
// tactic pipeline and answers `unknown` on queries that the same binary decides in 0.1 s as a
// standalone script. Inconclusive incremental answers are therefore re-run in a fresh process.

import (
	"fmt"
	"os"
	"os/exec"
	"strings"
	"time"
)

func (s *Solver) oneShot(assertions []*Term, wantVals []*Term, timeoutMs int) (string, map[int]uint64) {
	tmp := &Solver{defined: map[int]bool{}, ufDecl: map[string]bool{}}
	var sb strings.Builder
	sb.WriteString("(set-option :produce-models true)\n")
	for _, a := range assertions {
		tmp.define(a, &sb)
	}
	for _, v := range wantVals {
		tmp.define(v, &sb)
	}
	for _, a := range assertions {
		fmt.Fprintf(&sb, "(assert %s)\n", tmp.ref(a))
	}
	sb.WriteString("(check-sat)\n")
	if len(wantVals) > 0 {
		sb.WriteString("(get-value (")
		for _, v := range wantVals {
			sb.WriteString(tmp.ref(v) + " ")
		}
		sb.WriteString("))\n")
	}
	f, err := os.CreateTemp("", "gosmt-q-*.smt2")
	if err != nil {
		return "unknown", nil
	}
	defer os.Remove(f.Name())
	f.WriteString(sb.String())
	f.Close()
	t0 := time.Now()
	bin := "/usr/bin/z3"
	if s.kind == "z3-new" {
		bin = "z3-new"
	}
	out, _ := exec.Command(bin, fmt.Sprintf("-T:%d", (timeoutMs+999)/1000), f.Name()).Output()
	s.OneShots++
	s.OneShotWall += time.Since(t0)
	txt := string(out)
	first := strings.TrimSpace(strings.SplitN(txt, "\n", 2)[0])
	if strings.Contains(txt, "(error") && first != "sat" {
		s.LastErr = "one-shot: " + strings.TrimSpace(txt)
		if first != "unsat" {
			return "unknown", nil
		}
		// an error line after unsat can only come from get-value on an unsat problem
	}
	switch first {
	case "unsat":
		return "unsat", nil
	case "sat":
		var vals map[int]uint64
		if len(wantVals) > 0 {
			rest := txt[strings.Index(txt, "\n")+1:]
			parsed := parseValues(strings.TrimSpace(rest))
			if len(parsed) != len(wantVals) {
				s.LastErr = "one-shot get-value parse failure"
				return "unknown", nil
			}
			vals = map[int]uint64{}
			for i, v := range wantVals {
				vals[v.id] = parsed[i]
			}
		}
		return "sat", vals
	}
	return "unknown", nil
}
