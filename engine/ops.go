package main

import (
	"fmt"
	"go/token"
	"go/types"
	"math"

	"golang.org/x/tools/go/ssa"
)

func (in *Interp) resize(t *Term, w int, signed bool) *Term {
	if t.w == w {
		return t
	}
	if t.w > w {
		return in.tt.Extract(t, w-1, 0)
	}
	if signed {
		return in.tt.Sext(t, w)
	}
	return in.tt.Zext(t, w)
}

func (in *Interp) binop(op token.Token, x, y Value, tx, ty types.Type) Value {
	tt := in.tt
	switch a := x.(type) {
	case *Term:
		b, ok := y.(*Term)
		if !ok {
			in.abort("binop %s: mixed operands %s %s", op, describe(x), describe(y))
		}
		_, signed, _ := intInfo(tx)
		if a.w == 0 {
			switch op {
			case token.EQL:
				return tt.Eq(a, b)
			case token.NEQ:
				return tt.Not(tt.Eq(a, b))
			case token.AND, token.LAND:
				return tt.And(a, b)
			case token.OR, token.LOR:
				return tt.Or(a, b)
			case token.XOR:
				return tt.Not(tt.Eq(a, b))
			}
			in.abort("binop %s on bool", op)
		}
		switch op {
		case token.ADD:
			return tt.Bin(OpAdd, a, b)
		case token.SUB:
			return tt.Bin(OpSub, a, b)
		case token.MUL:
			return tt.Bin(OpMul, a, b)
		case token.QUO, token.REM:
			z := tt.Eq(b, tt.Const(b.w, 0))
			if in.decide(z) {
				in.goPanic("integer divide by zero")
				return tt.Const(a.w, 0)
			}
			if op == token.QUO {
				if signed {
					return tt.Bin(OpSdiv, a, b)
				}
				return tt.Bin(OpUdiv, a, b)
			}
			if signed {
				return tt.Bin(OpSrem, a, b)
			}
			return tt.Bin(OpUrem, a, b)
		case token.AND:
			return tt.Bin(OpBvAnd, a, b)
		case token.OR:
			return tt.Bin(OpBvOr, a, b)
		case token.XOR:
			return tt.Bin(OpBvXor, a, b)
		case token.AND_NOT:
			return tt.Bin(OpBvAnd, a, tt.Un(OpBvNot, b))
		case token.SHL, token.SHR:
			_, ysigned, _ := intInfo(ty)
			if ysigned {
				neg := tt.Slt(b, tt.Const(b.w, 0))
				if in.decide(neg) {
					in.goPanic("negative shift amount")
					return tt.Const(a.w, 0)
				}
			}
			sop := OpShl
			if op == token.SHR {
				if signed {
					sop = OpAshr
				} else {
					sop = OpLshr
				}
			}
			if b.w <= a.w {
				return tt.Bin(sop, a, tt.Zext(b, a.w))
			}
			big := tt.Not(tt.Ult(b, tt.Const(b.w, uint64(a.w))))
			res := tt.Bin(sop, a, tt.Extract(b, a.w-1, 0))
			var fill *Term
			if sop == OpAshr {
				fill = tt.Bin(OpAshr, a, tt.Const(a.w, uint64(a.w-1)))
			} else {
				fill = tt.Const(a.w, 0)
			}
			return tt.Ite(big, fill, res)
		case token.EQL:
			return tt.Eq(a, b)
		case token.NEQ:
			return tt.Not(tt.Eq(a, b))
		case token.LSS:
			if signed {
				return tt.Slt(a, b)
			}
			return tt.Ult(a, b)
		case token.LEQ:
			if signed {
				return tt.Sle(a, b)
			}
			return tt.Ule(a, b)
		case token.GTR:
			if signed {
				return tt.Slt(b, a)
			}
			return tt.Ult(b, a)
		case token.GEQ:
			if signed {
				return tt.Sle(b, a)
			}
			return tt.Ule(b, a)
		}
		in.abort("unsupported int binop %s", op)
	case StrV:
		b, ok := y.(StrV)
		if !ok {
			in.abort("binop %s: string with %s", op, describe(y))
		}
		switch op {
		case token.ADD:
			nb := make([]*Term, 0, len(a.b)+len(b.b))
			nb = append(nb, a.b...)
			nb = append(nb, b.b...)
			return StrV{nb}
		case token.EQL:
			return in.bytesEq(a.b, b.b)
		case token.NEQ:
			return tt.Not(in.bytesEq(a.b, b.b))
		case token.LSS:
			return in.bytesLess(a.b, b.b, false)
		case token.LEQ:
			return in.bytesLess(a.b, b.b, true)
		case token.GTR:
			return in.bytesLess(b.b, a.b, false)
		case token.GEQ:
			return in.bytesLess(b.b, a.b, true)
		}
		in.abort("unsupported string binop %s", op)
	case FloatV:
		b, ok := y.(FloatV)
		if !ok {
			in.abort("float binop with %s", describe(y))
		}
		switch op {
		case token.ADD:
			return a + b
		case token.SUB:
			return a - b
		case token.MUL:
			return a * b
		case token.QUO:
			return a / b
		case token.EQL:
			return tt.Bool(a == b)
		case token.NEQ:
			return tt.Bool(a != b)
		case token.LSS:
			return tt.Bool(a < b)
		case token.LEQ:
			return tt.Bool(a <= b)
		case token.GTR:
			return tt.Bool(a > b)
		case token.GEQ:
			return tt.Bool(a >= b)
		}
		in.abort("unsupported float binop %s", op)
	}
	switch op {
	case token.EQL:
		return in.valEq(x, y)
	case token.NEQ:
		return tt.Not(in.valEq(x, y))
	}
	in.abort("unsupported binop %s on %s, %s", op, describe(x), describe(y))
	return nil
}

func (in *Interp) bytesEq(a, b []*Term) *Term {
	if len(a) != len(b) {
		return in.tt.False
	}
	cs := make([]*Term, 0, len(a))
	for i := range a {
		e := in.tt.Eq(a[i], b[i])
		if e == in.tt.False {
			return e
		}
		if e != in.tt.True {
			cs = append(cs, e)
		}
	}
	return in.tt.And(cs...)
}

// lexicographic a < b (or <= if orEq)
func (in *Interp) bytesLess(a, b []*Term, orEq bool) *Term {
	tt := in.tt
	n := len(a)
	if len(b) < n {
		n = len(b)
	}
	// tail: all common bytes equal
	var tail *Term
	if len(a) < len(b) {
		tail = tt.True
	} else if len(a) == len(b) {
		tail = tt.Bool(orEq)
	} else {
		tail = tt.False
	}
	res := tail
	for i := n - 1; i >= 0; i-- {
		lt := tt.Ult(a[i], b[i])
		eq := tt.Eq(a[i], b[i])
		res = tt.Or(lt, tt.And(eq, res))
	}
	return res
}

func (in *Interp) valEq(x, y Value) *Term {
	tt := in.tt
	switch a := x.(type) {
	case nil:
		return tt.Bool(y == nil)
	case *Term:
		b, ok := y.(*Term)
		if !ok {
			return tt.False
		}
		return tt.Eq(a, b)
	case StrV:
		b, ok := y.(StrV)
		if !ok {
			return tt.False
		}
		return in.bytesEq(a.b, b.b)
	case FloatV:
		b, ok := y.(FloatV)
		return tt.Bool(ok && a == b)
	case PtrV:
		b, ok := y.(PtrV)
		if !ok {
			return tt.False
		}
		return tt.Bool(a.base == b.base && (a.base == nil || a.idx == b.idx))
	case SliceV:
		b, ok := y.(SliceV)
		if !ok {
			return tt.False
		}
		if a.base == nil || b.base == nil {
			return tt.Bool(a.base == nil && b.base == nil)
		}
		in.abort("comparison of non-nil slices")
	case *MapObj:
		b, _ := y.(*MapObj)
		return tt.Bool(a == b)
	case *ChanObj:
		b, _ := y.(*ChanObj)
		return tt.Bool(a == b)
	case *FuncV:
		b, _ := y.(*FuncV)
		if a == nil || b == nil {
			return tt.Bool(a == nil && b == nil)
		}
		in.abort("comparison of non-nil funcs")
	case *Opaque:
		b, _ := y.(*Opaque)
		return tt.Bool(a == b)
	case IfaceV:
		b, ok := y.(IfaceV)
		if !ok {
			return tt.False
		}
		if a.t == nil || b.t == nil {
			return tt.Bool(a.t == nil && b.t == nil)
		}
		if !types.Identical(a.t, b.t) {
			return tt.False
		}
		return in.valEq(a.v, b.v)
	case *Agg:
		b, ok := y.(*Agg)
		if !ok || len(a.s) != len(b.s) {
			return tt.False
		}
		cs := make([]*Term, 0, len(a.s))
		for i := range a.s {
			cs = append(cs, in.valEq(a.s[i], b.s[i]))
		}
		return tt.And(cs...)
	}
	in.abort("valEq: unsupported %s vs %s", describe(x), describe(y))
	return nil
}

func (in *Interp) execUnOp(g *G, fr *Frame, x *ssa.UnOp) {
	v := in.get(fr, x.X)
	switch x.Op {
	case token.NOT:
		in.set(fr, x, in.tt.Not(v.(*Term)))
	case token.SUB:
		if f, ok := v.(FloatV); ok {
			in.set(fr, x, -f)
		} else {
			in.set(fr, x, in.tt.Un(OpBvNeg, v.(*Term)))
		}
	case token.XOR:
		in.set(fr, x, in.tt.Un(OpBvNot, v.(*Term)))
	case token.MUL:
		p, ok := v.(PtrV)
		if !ok {
			in.abort("deref of non-pointer %s", describe(v))
		}
		if p.base == nil {
			in.goPanic("nil pointer dereference")
			return
		}
		lv := in.load(p)
		if _, isOp := lv.(*Opaque); isOp && in.lenient == 0 {
			in.abort("dereference of opaque object %s", describe(lv))
		}
		in.set(fr, x, lv)
	case token.ARROW:
		in.execRecv(g, fr, x)
		return
	default:
		in.abort("unsupported unop %s", x.Op)
	}
	fr.ip++
}

func (in *Interp) convert(v Value, from, to types.Type) Value {
	uf := types.Unalias(from).Underlying()
	ut := types.Unalias(to).Underlying()
	switch a := v.(type) {
	case *Term:
		if _, ok := ut.(*types.Basic); ok {
			if isString(ut) {
				// rune/int -> string
				if !a.IsConst() {
					in.abort("int->string conversion of symbolic value")
				}
				return in.strConst(string(rune(a.S())))
			}
			if isFloat(ut) {
				if !a.IsConst() {
					in.abort("int->float conversion of symbolic value")
				}
				_, signed, _ := intInfo(uf)
				if signed {
					return FloatV(float64(a.S()))
				}
				return FloatV(float64(a.c))
			}
			w, _, ok := intInfo(ut)
			if !ok {
				in.abort("convert int to %s", to)
			}
			_, fsigned, _ := intInfo(uf)
			if a.w == 0 || w == 0 {
				in.abort("convert involving bool")
			}
			return in.resize(a, w, fsigned)
		}
		if _, ok := ut.(*types.Pointer); ok {
			in.abort("uintptr->pointer conversion")
		}
	case FloatV:
		if isFloat(ut) {
			if b := ut.(*types.Basic); b.Kind() == types.Float32 {
				return FloatV(float64(float32(a)))
			}
			return a
		}
		w, signed, ok := intInfo(ut)
		if ok {
			if signed {
				return in.tt.Const(w, uint64(int64(a)))
			}
			if a < 0 || a >= math.MaxUint64 {
				return in.tt.Const(w, uint64(int64(a)))
			}
			return in.tt.Const(w, uint64(a))
		}
	case StrV:
		if isString(ut) {
			return a
		}
		if sl, ok := ut.(*types.Slice); ok {
			eb, _ := types.Unalias(sl.Elem()).Underlying().(*types.Basic)
			if eb != nil && eb.Kind() == types.Uint8 {
				return in.bytesToSlice(a.b)
			}
			if eb != nil && eb.Kind() == types.Int32 {
				s, ok := a.Concrete()
				if !ok {
					in.abort("string->[]rune of symbolic string")
				}
				rs := []rune(s)
				ag := &Agg{s: make([]Value, len(rs))}
				for i, r := range rs {
					ag.s[i] = in.tt.Const(32, uint64(r))
				}
				return SliceV{ag, 0, len(rs), len(rs)}
			}
		}
	case SliceV:
		if isString(ut) {
			sl := uf.(*types.Slice)
			eb, _ := types.Unalias(sl.Elem()).Underlying().(*types.Basic)
			if eb != nil && eb.Kind() == types.Uint8 {
				if a.base == nil {
					return StrV{}
				}
				return StrV{in.sliceBytes(a)}
			}
			if eb != nil && eb.Kind() == types.Int32 {
				var rs []rune
				for i := 0; i < a.len; i++ {
					t := a.base.s[a.off+i].(*Term)
					if !t.IsConst() {
						in.abort("[]rune->string of symbolic runes")
					}
					rs = append(rs, rune(t.S()))
				}
				return in.strConst(string(rs))
			}
		}
		if _, ok := ut.(*types.Slice); ok {
			return a
		}
	case PtrV:
		return a
	}
	if types.Identical(uf, ut) {
		return v
	}
	in.abort("unsupported conversion %s -> %s of %s", from, to, describe(v))
	return nil
}

// checkIndex decides bounds for index t against length n; returns concrete index or raises panic (returns -1).
func (in *Interp) checkIndex(t *Term, n int, what string) int {
	if t.IsConst() {
		i := t.S()
		if i < 0 || i >= int64(n) {
			in.goPanic(fmt.Sprintf("index out of range [%d] with length %d", i, n))
			return -1
		}
		return int(i)
	}
	inb := in.tt.Ult(t, in.tt.Const(t.w, uint64(n)))
	if !in.decide(inb) {
		in.goPanic(fmt.Sprintf("index out of range [symbolic] with length %d", n))
		return -1
	}
	return -2 // symbolic, in bounds
}

func (in *Interp) execIndex(g *G, fr *Frame, x *ssa.Index) {
	base := in.get(fr, x.X)
	it := in.index64(in.get(fr, x.Index).(*Term), x.Index.Type())
	var elems []Value
	switch b := base.(type) {
	case *Agg:
		elems = b.s
	case StrV:
		elems = make([]Value, len(b.b))
		for i, t := range b.b {
			elems[i] = t
		}
	default:
		in.abort("index of %s", describe(base))
	}
	i := in.checkIndex(it, len(elems), "index")
	if i == -1 {
		return
	}
	if i >= 0 {
		in.set(fr, x, elems[i])
	} else {
		in.set(fr, x, in.selectElem(elems, it))
	}
	fr.ip++
}

// selectElem builds an ite chain for a symbolic in-bounds index (scalar elements),
// or case-splits on the index otherwise.
func (in *Interp) selectElem(elems []Value, it *Term) Value {
	allScalar := len(elems) <= 300
	if allScalar {
		for _, e := range elems {
			if _, ok := e.(*Term); !ok {
				allScalar = false
				break
			}
		}
	}
	if allScalar && len(elems) > 0 {
		ts := make([]*Term, len(elems))
		for i, e := range elems {
			ts[i] = e.(*Term)
		}
		top := 0
		for (1 << uint(top+1)) < len(ts) {
			top++
		}
		return in.muxTree(ts, it, top)
	}
	k := in.concretize(it, "index")
	return elems[k]
}

func (in *Interp) execIndexAddr(g *G, fr *Frame, x *ssa.IndexAddr) {
	base := in.get(fr, x.X)
	it := in.index64(in.get(fr, x.Index).(*Term), x.Index.Type())
	var ag *Agg
	var off, n int
	switch b := base.(type) {
	case SliceV:
		ag, off, n = b.base, b.off, b.len
	case PtrV:
		if b.base == nil {
			in.goPanic("nil pointer dereference")
			return
		}
		a, ok := b.base.s[b.idx].(*Agg)
		if !ok {
			in.abort("IndexAddr: pointer target not an array")
		}
		ag, off, n = a, 0, len(a.s)
	default:
		in.abort("IndexAddr of %s", describe(base))
	}
	i := in.checkIndex(it, n, "index")
	if i == -1 {
		return
	}
	if i == -2 {
		scalar := n <= 512
		if scalar {
			for k := 0; k < n; k++ {
				if _, ok := ag.s[off+k].(*Term); !ok {
					scalar = false
					break
				}
			}
		}
		if scalar {
			in.set(fr, x, PtrV{base: ag, idx: off, sym: it, n: n})
			fr.ip++
			return
		}
		i = int(in.concretize(it, "index"))
	}
	in.set(fr, x, PtrV{base: ag, idx: off + i})
	fr.ip++
}

func (in *Interp) execLookup(g *G, fr *Frame, x *ssa.Lookup) {
	base := in.get(fr, x.X)
	switch b := base.(type) {
	case StrV:
		it := in.index64(in.get(fr, x.Index).(*Term), x.Index.Type())
		i := in.checkIndex(it, len(b.b), "string index")
		if i == -1 {
			return
		}
		if i >= 0 {
			in.set(fr, x, b.b[i])
		} else {
			elems := make([]Value, len(b.b))
			for k, t := range b.b {
				elems[k] = t
			}
			in.set(fr, x, in.selectElem(elems, it))
		}
	case *MapObj:
		key := in.get(fr, x.Index)
		var v Value
		found := false
		if b != nil {
			v, found = in.mapGet(b, key)
		}
		if !found {
			v = in.zero(types.Unalias(x.X.Type()).Underlying().(*types.Map).Elem())
		}
		if x.CommaOk {
			in.set(fr, x, TupleV{v, in.tt.Bool(found)})
		} else {
			in.set(fr, x, v)
		}
	default:
		in.abort("lookup on %s", describe(base))
	}
	fr.ip++
}

func (in *Interp) mapFind(m *MapObj, key Value) int {
	for i := range m.entries {
		e := in.valEq(m.entries[i].k, key)
		if e.IsConst() {
			if e.c != 0 {
				return i
			}
			continue
		}
		if in.decide(e) {
			return i
		}
	}
	return -1
}

func (in *Interp) mapGet(m *MapObj, key Value) (Value, bool) {
	i := in.mapFind(m, key)
	if i < 0 {
		return nil, false
	}
	return m.entries[i].v, true
}

func (in *Interp) mapSet(m *MapObj, key, val Value) {
	i := in.mapFind(m, key)
	if i >= 0 {
		m.entries[i].v = val
		return
	}
	m.entries = append(m.entries, mapEntry{key, val})
}

func (in *Interp) mapDelete(m *MapObj, key Value) {
	i := in.mapFind(m, key)
	if i >= 0 {
		m.entries = append(m.entries[:i:i], m.entries[i+1:]...)
	}
}

func (in *Interp) execMakeSlice(g *G, fr *Frame, x *ssa.MakeSlice) {
	lt := in.get(fr, x.Len).(*Term)
	ct := in.get(fr, x.Cap).(*Term)
	elem := types.Unalias(x.Type()).Underlying().(*types.Slice).Elem()
	n, ok := in.allocLen(lt, elem, "makeslice: len out of range")
	if !ok {
		return
	}
	c := n
	if ct != lt {
		c, ok = in.allocLen(ct, elem, "makeslice: cap out of range")
		if !ok {
			return
		}
		if c < n {
			in.goPanic("makeslice: cap out of range")
			return
		}
	}
	in.set(fr, x, in.makeSlice(elem, n, c))
	fr.ip++
}

func (in *Interp) makeSlice(elem types.Type, n, c int) SliceV {
	ag := &Agg{s: make([]Value, c)}
	in.nalloc++
	ag.id = in.nalloc
	if c > 0 {
		z := in.zero(elem)
		if _, isAgg := z.(*Agg); isAgg {
			ag.s[0] = z
			for i := 1; i < c; i++ {
				ag.s[i] = in.zero(elem)
			}
		} else {
			for i := range ag.s {
				ag.s[i] = z
			}
		}
	}
	return SliceV{ag, 0, n, c}
}

const maxConcreteAlloc = 1 << 24

// allocLen validates an allocation length (panic if negative / absurd, alloc-limit obligation)
// and returns it concretely.
func (in *Interp) allocLen(t *Term, elem types.Type, msg string) (int, bool) {
	if !t.IsConst() {
		neg := in.tt.Slt(t, in.tt.Const(t.w, 0))
		if in.decide(neg) {
			in.goPanic(msg)
			return 0, false
		}
		if in.allocLimit > 0 {
			over := in.tt.Slt(in.tt.Const(t.w, uint64(in.allocLimit)), t)
			if in.decide(over) {
				in.violation("alloc-limit", fmt.Sprintf("allocation of symbolic size can exceed limit %d", in.allocLimit), true)
				panic(pathEnd{"done", "allocation over limit"})
			}
		} else {
			huge := in.tt.Slt(in.tt.Const(t.w, maxConcreteAlloc), t)
			if in.decide(huge) {
				in.violation("alloc-unbounded", "allocation size is unbounded (attacker-controlled, > 16Mi elements)", true)
				panic(pathEnd{"done", "unbounded allocation"})
			}
		}
	}
	n := in.concreteInt(t, "allocation length")
	if n < 0 {
		in.goPanic(msg)
		return 0, false
	}
	if in.allocLimit > 0 && n > in.allocLimit {
		in.violation("alloc-limit", fmt.Sprintf("allocation of %d elements exceeds limit %d", n, in.allocLimit), true)
		panic(pathEnd{"done", "allocation over limit"})
	}
	if n > maxConcreteAlloc {
		panic(pathEnd{"bound", fmt.Sprintf("allocation of %d elements", n)})
	}
	return int(n), true
}

func (in *Interp) execSlice(g *G, fr *Frame, x *ssa.Slice) {
	base := in.get(fr, x.X)
	tt := in.tt
	var ag *Agg
	var off, ln, cp int
	var str []*Term
	isStr := false
	switch b := base.(type) {
	case SliceV:
		ag, off, ln, cp = b.base, b.off, b.len, b.cap
	case StrV:
		isStr = true
		str = b.b
		ln, cp = len(str), len(str)
	case PtrV:
		if b.base == nil {
			in.goPanic("nil pointer dereference")
			return
		}
		a, ok := b.base.s[b.idx].(*Agg)
		if !ok {
			in.abort("Slice: pointer target not an array")
		}
		ag, off, ln, cp = a, 0, len(a.s), len(a.s)
	default:
		in.abort("slice of %s", describe(base))
	}
	c64 := func(v int) *Term { return tt.Const(64, uint64(v)) }
	lo, hi, mx := c64(0), c64(ln), c64(cp)
	if x.Low != nil {
		lo = in.resize(in.get(fr, x.Low).(*Term), 64, true)
	}
	if x.High != nil {
		hi = in.resize(in.get(fr, x.High).(*Term), 64, true)
	}
	if x.Max != nil {
		mx = in.resize(in.get(fr, x.Max).(*Term), 64, true)
	}
	// bounds: 0 <= lo <= hi <= mx <= cap   (for strings hi <= len)
	limit := cp
	if isStr {
		limit = ln
	}
	okc := tt.And(tt.Sle(c64(0), lo), tt.Sle(lo, hi), tt.Sle(hi, mx), tt.Sle(mx, c64(limit)))
	if okc.IsConst() {
		if okc.c == 0 {
			in.goPanic(fmt.Sprintf("slice bounds out of range [%s:%s] with capacity %d", lo, hi, limit))
			return
		}
	} else if !in.decide(okc) {
		in.goPanic(fmt.Sprintf("slice bounds out of range [symbolic] with capacity %d", limit))
		return
	}
	l := int(in.concreteInt(lo, "slice low"))
	h := int(in.concreteInt(hi, "slice high"))
	m := int(in.concreteInt(mx, "slice max"))
	if isStr {
		in.set(fr, x, StrV{str[l:h:h]})
	} else if ag == nil {
		in.set(fr, x, SliceV{})
	} else {
		in.set(fr, x, SliceV{ag, off + l, h - l, m - l})
	}
	fr.ip++
}

type mapIter struct {
	m    *MapObj
	keys []Value
	pos  int
}

type strIter struct {
	s   StrV
	pos int
}

func (in *Interp) execRange(g *G, fr *Frame, x *ssa.Range) {
	v := in.get(fr, x.X)
	switch b := v.(type) {
	case *MapObj:
		it := &mapIter{m: b}
		if b != nil {
			for _, e := range b.entries {
				it.keys = append(it.keys, e.k)
			}
			// optional: symbolic choice of the starting rotation is requested by harness via rt.MapOrder
			if in.mapOrder && len(it.keys) > 1 {
				r := in.choose(len(it.keys), "maporder")
				it.keys = append(append([]Value{}, it.keys[r:]...), it.keys[:r]...)
			}
		}
		in.set(fr, x, it)
	case StrV:
		in.set(fr, x, &strIter{s: b})
	default:
		in.abort("range over %s", describe(v))
	}
	fr.ip++
}

func (in *Interp) execNext(g *G, fr *Frame, x *ssa.Next) {
	itv := in.get(fr, x.Iter)
	tt := in.tt
	switch it := itv.(type) {
	case *mapIter:
		for it.pos < len(it.keys) {
			k := it.keys[it.pos]
			it.pos++
			// entry must still be present (by identity of key value in entry list)
			idx := -1
			for i := range it.m.entries {
				if sameKeyValue(it.m.entries[i].k, k) {
					idx = i
					break
				}
			}
			if idx < 0 {
				continue
			}
			in.set(fr, x, TupleV{tt.True, k, it.m.entries[idx].v})
			fr.ip++
			return
		}
		mt := it.mtype(x)
		in.set(fr, x, TupleV{tt.False, in.zero(mt.Key()), in.zero(mt.Elem())})
	case *strIter:
		if it.pos >= len(it.s.b) {
			in.set(fr, x, TupleV{tt.False, tt.Const(64, 0), tt.Const(32, 0)})
			break
		}
		b0 := it.s.b[it.pos]
		start := it.pos
		_ = b0
		end := it.pos + 4
		if end > len(it.s.b) {
			end = len(it.s.b)
		}
		r, size := in.decodeRuneSym(it.s.b[it.pos:end])
		it.pos += size
		in.set(fr, x, TupleV{tt.True, tt.Const(64, uint64(start)), r})
	default:
		in.abort("next on %T", itv)
	}
	fr.ip++
}

func (it *mapIter) mtype(x *ssa.Next) *types.Map {
	if it.m != nil {
		return it.m.typ
	}
	rng := x.Iter.(*ssa.Range)
	return types.Unalias(rng.X.Type()).Underlying().(*types.Map)
}

func sameKeyValue(a, b Value) bool {
	switch x := a.(type) {
	case *Term:
		y, ok := b.(*Term)
		return ok && x == y
	case StrV:
		y, ok := b.(StrV)
		if !ok || len(x.b) != len(y.b) {
			return false
		}
		for i := range x.b {
			if x.b[i] != y.b[i] {
				return false
			}
		}
		return true
	case PtrV:
		y, ok := b.(PtrV)
		return ok && x == y
	case IfaceV:
		y, ok := b.(IfaceV)
		if !ok {
			return false
		}
		if x.t == nil || y.t == nil {
			return x.t == nil && y.t == nil
		}
		return types.Identical(x.t, y.t) && sameKeyValue(x.v, y.v)
	case *Agg:
		y, ok := b.(*Agg)
		if !ok || len(x.s) != len(y.s) {
			return false
		}
		for i := range x.s {
			if !sameKeyValue(x.s[i], y.s[i]) {
				return false
			}
		}
		return true
	}
	return a == b
}

func (in *Interp) implements(dyn types.Type, iface *types.Interface) bool {
	in.w.msMu.Lock()
	defer in.w.msMu.Unlock()
	return types.Implements(dyn, iface)
}

func (in *Interp) execTypeAssert(g *G, fr *Frame, x *ssa.TypeAssert) {
	v := in.get(fr, x.X)
	iv, ok := v.(IfaceV)
	if !ok {
		in.abort("type assert on non-interface %s", describe(v))
	}
	var res Value
	okb := false
	if it, isIface := types.Unalias(x.AssertedType).Underlying().(*types.Interface); isIface {
		if iv.t != nil {
			if op, isOp := iv.v.(*Opaque); isOp {
				okb = in.opaqueImplements(op, it)
			} else {
				okb = in.implements(iv.t, it)
			}
		}
		if okb {
			res = iv
		} else {
			res = IfaceV{}
		}
	} else {
		if iv.t != nil && types.Identical(iv.t, x.AssertedType) {
			okb = true
			res = iv.v
		} else {
			res = in.zero(x.AssertedType)
		}
	}
	if x.CommaOk {
		in.set(fr, x, TupleV{res, in.tt.Bool(okb)})
	} else {
		if !okb {
			dyn := "nil"
			if iv.t != nil {
				dyn = iv.t.String()
			}
			in.goPanic(fmt.Sprintf("interface conversion: interface is %s, not %s", dyn, x.AssertedType))
			return
		}
		in.set(fr, x, res)
	}
	fr.ip++
}

// ---------------------------------------------------------------- builtins

func (in *Interp) builtin(fr *Frame, b *ssa.Builtin, cc *ssa.CallCommon, args []Value) Value {
	tt := in.tt
	switch b.Name() {
	case "len":
		switch a := args[0].(type) {
		case StrV:
			return tt.Const(64, uint64(len(a.b)))
		case SliceV:
			return tt.Const(64, uint64(a.len))
		case *MapObj:
			if a == nil {
				return tt.Const(64, 0)
			}
			return tt.Const(64, uint64(len(a.entries)))
		case *ChanObj:
			if a == nil {
				return tt.Const(64, 0)
			}
			return tt.Const(64, uint64(len(a.buf)))
		case PtrV:
			arr := types.Unalias(cc.Args[0].Type()).Underlying().(*types.Pointer).Elem().Underlying().(*types.Array)
			return tt.Const(64, uint64(arr.Len()))
		case *Agg:
			return tt.Const(64, uint64(len(a.s)))
		}
	case "cap":
		switch a := args[0].(type) {
		case SliceV:
			return tt.Const(64, uint64(a.cap))
		case *ChanObj:
			if a == nil {
				return tt.Const(64, 0)
			}
			return tt.Const(64, uint64(a.cap))
		case PtrV:
			arr := types.Unalias(cc.Args[0].Type()).Underlying().(*types.Pointer).Elem().Underlying().(*types.Array)
			return tt.Const(64, uint64(arr.Len()))
		case *Agg:
			return tt.Const(64, uint64(len(a.s)))
		}
	case "append":
		s := args[0].(SliceV)
		var add []Value
		switch e := args[1].(type) {
		case SliceV:
			for i := 0; i < e.len; i++ {
				add = append(add, e.base.s[e.off+i])
			}
		case StrV:
			for _, t := range e.b {
				add = append(add, t)
			}
		default:
			in.abort("append of %s", describe(args[1]))
		}
		return in.appendVals(s, add, cc.Args[0].Type())
	case "copy":
		d := args[0].(SliceV)
		var src []Value
		switch e := args[1].(type) {
		case SliceV:
			for i := 0; i < e.len; i++ {
				src = append(src, e.base.s[e.off+i])
			}
		case StrV:
			for _, t := range e.b {
				src = append(src, t)
			}
		}
		n := d.len
		if len(src) < n {
			n = len(src)
		}
		for i := 0; i < n; i++ {
			storeInto(d.base, d.off+i, src[i])
		}
		return tt.Const(64, uint64(n))
	case "delete":
		if m := args[0].(*MapObj); m != nil {
			in.mapDelete(m, args[1])
		}
		return nil
	case "close":
		in.chanClose(args[0].(*ChanObj))
		return nil
	case "recover":
		return in.doRecover(fr)
	case "print", "println":
		return nil
	case "ssa:wrapnilchk":
		if p, ok := args[0].(PtrV); ok && p.base == nil {
			in.goPanic("value method called using nil pointer")
		}
		return args[0]
	case "min", "max":
		isMax := b.Name() == "max"
		switch a0 := args[0].(type) {
		case *Term:
			_, signed, _ := intInfo(cc.Args[0].Type())
			res := a0
			for _, a := range args[1:] {
				at := a.(*Term)
				var c *Term
				if signed {
					c = tt.Slt(at, res)
				} else {
					c = tt.Ult(at, res)
				}
				if isMax {
					c = tt.And(tt.Not(c), tt.Not(tt.Eq(at, res)))
				}
				res = tt.Ite(c, at, res)
			}
			return res
		}
	case "clear":
		switch a := args[0].(type) {
		case *MapObj:
			if a != nil {
				a.entries = nil
			}
			return nil
		case SliceV:
			if a.len > 0 {
				et := types.Unalias(cc.Args[0].Type()).Underlying().(*types.Slice).Elem()
				for i := 0; i < a.len; i++ {
					storeInto(a.base, a.off+i, in.zero(et))
				}
			}
			return nil
		}
	}
	in.abort("unsupported builtin %s(%s)", b.Name(), describe(args[0]))
	return nil
}

func (in *Interp) appendVals(s SliceV, add []Value, st types.Type) SliceV {
	if len(add) == 0 {
		return s
	}
	need := s.len + len(add)
	if s.base != nil && need <= s.cap {
		for i, v := range add {
			storeInto(s.base, s.off+s.len+i, v)
		}
		return SliceV{s.base, s.off, need, s.cap}
	}
	nc := s.cap * 2
	if nc < need {
		nc = need
	}
	if in.allocLimit > 0 && int64(nc) > in.allocLimit*2+64 {
		in.violation("alloc-limit", fmt.Sprintf("append grows buffer to %d elements (limit %d)", nc, in.allocLimit), true)
	}
	ag := &Agg{s: make([]Value, nc)}
	in.nalloc++
	ag.id = in.nalloc
	for i := 0; i < s.len; i++ {
		ag.s[i] = copyVal(s.base.s[s.off+i])
	}
	for i, v := range add {
		ag.s[s.len+i] = copyVal(v)
	}
	if nc > need {
		et := types.Unalias(st).Underlying().(*types.Slice).Elem()
		for i := need; i < nc; i++ {
			ag.s[i] = in.zero(et)
		}
	}
	return SliceV{ag, 0, need, nc}
}
