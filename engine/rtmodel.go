package main

// Engine side of the modelling API in zz_verifrt (used by Go-source models and harnesses):
// uninterpreted functions, non-branching boolean connectives, ideal signatures, side tables.

import (
	"crypto/ed25519"
	"crypto/sha1"
	"crypto/sha256"

	"golang.org/x/tools/go/ssa"
)

func init() {
	ufFamilies["inj/sha256"] = &ufFamily{injective: true, native: func(a [][]byte) []byte { h := sha256.Sum256(a[0]); return h[:] }}
	ufFamilies["inj/sha1"] = &ufFamily{injective: true, native: func(a [][]byte) []byte { h := sha1.Sum(a[0]); return h[:] }}
	ufFamilies["inj/blake3"] = &ufFamily{injective: true, native: func(a [][]byte) []byte { h := nativeBlake3Sum256(a[0]); return h[:] }}
	ufFamilies["inj/ed25519.pub"] = &ufFamily{injective: true, native: func(a [][]byte) []byte {
		if len(a[0]) != 32 {
			return nil
		}
		k := ed25519.NewKeyFromSeed(a[0])
		return []byte(k[32:])
	}}
	ufFamilies["ed25519.sign"] = &ufFamily{native: func(a [][]byte) []byte {
		if len(a[0]) != 32 {
			return nil
		}
		k := ed25519.NewKeyFromSeed(a[0])
		return ed25519.Sign(k, a[1])
	}}

	r := func(name string, f intrinsicFn) { reg(rtPkgPath+"."+name, f) }
	bytesOf := func(in *Interp, v Value) []*Term {
		switch x := v.(type) {
		case SliceV:
			return in.sliceBytesN(x)
		case StrV:
			return x.b
		}
		in.abort("expected bytes, got %s", describe(v))
		return nil
	}
	// UF(fam string, outLen int, args ...[]byte) []byte
	r("UF", func(in *Interp, fn *ssa.Function, args []Value, site ssa.Value) Value {
		fam := in.concStr(args[0], "UF family")
		outLen := int(in.concreteInt(args[1].(*Term), "UF outLen"))
		va := args[2].(SliceV)
		var bs [][]*Term
		for i := 0; i < va.len; i++ {
			bs = append(bs, bytesOf(in, va.base.s[va.off+i]))
		}
		res := in.ufBytes(fam, outLen, bs...)
		return in.bytesToSlice(res)
	})
	// UFBool(fam string, args ...[]byte) bool : uninterpreted predicate
	r("UFBool", func(in *Interp, fn *ssa.Function, args []Value, site ssa.Value) Value {
		fam := in.concStr(args[0], "UF family")
		va := args[1].(SliceV)
		var bs [][]*Term
		shape := fam
		for i := 0; i < va.len; i++ {
			b := bytesOf(in, va.base.s[va.off+i])
			shape += "_" + itoa(len(b))
			bs = append(bs, b)
		}
		key := "ufp!" + shape
		for _, p := range in.ufApps[key] {
			if sameArgs(p.args, bs) {
				return p.resBool
			}
		}
		// Ackermann encoding of the predicate: fresh boolean + pairwise congruence
		in.nufapp++
		app := &ufApp{fam: key, shape: shape, args: bs, resBool: in.tt.Var(key+"!"+itoa(in.nufapp), 0)}
		for _, p := range in.ufApps[key] {
			in.addAxiom(in.tt.Implies(in.argsEq(p.args, bs), in.tt.Eq(p.resBool, app.resBool)))
		}
		in.ufApps[key] = append(in.ufApps[key], app)
		return app.resBool
	})
	r("Axiom", func(in *Interp, fn *ssa.Function, args []Value, site ssa.Value) Value {
		in.addAxiom(args[0].(*Term))
		return nil
	})
	r("Implies", func(in *Interp, fn *ssa.Function, args []Value, site ssa.Value) Value {
		return in.tt.Implies(args[0].(*Term), args[1].(*Term))
	})
	r("And", func(in *Interp, fn *ssa.Function, args []Value, site ssa.Value) Value {
		return in.tt.And(args[0].(*Term), args[1].(*Term))
	})
	r("Or", func(in *Interp, fn *ssa.Function, args []Value, site ssa.Value) Value {
		return in.tt.Or(args[0].(*Term), args[1].(*Term))
	})
	r("Not", func(in *Interp, fn *ssa.Function, args []Value, site ssa.Value) Value {
		return in.tt.Not(args[0].(*Term))
	})
	r("Iff", func(in *Interp, fn *ssa.Function, args []Value, site ssa.Value) Value {
		return in.tt.Eq(args[0].(*Term), args[1].(*Term))
	})
	r("BytesEq", func(in *Interp, fn *ssa.Function, args []Value, site ssa.Value) Value {
		return in.bytesEq(bytesOf(in, args[0]), bytesOf(in, args[1]))
	})
	r("StrEq", func(in *Interp, fn *ssa.Function, args []Value, site ssa.Value) Value {
		return in.bytesEq(bytesOf(in, args[0]), bytesOf(in, args[1]))
	})
	r("IsConcrete", func(in *Interp, fn *ssa.Function, args []Value, site ssa.Value) Value {
		_, ok := concreteBytes(bytesOf(in, args[0]))
		return in.tt.Bool(ok)
	})
	r("Symbolic", func(in *Interp, fn *ssa.Function, args []Value, site ssa.Value) Value {
		return in.tt.True
	})
	r("SideGet", func(in *Interp, fn *ssa.Function, args []Value, site ssa.Value) Value {
		k := sideKey(in, args[0])
		if v, ok := in.side[k]; ok {
			return v.(Value)
		}
		return IfaceV{}
	})
	r("SideSet", func(in *Interp, fn *ssa.Function, args []Value, site ssa.Value) Value {
		in.side[sideKey(in, args[0])] = args[1]
		return nil
	})
	// ideal signatures
	r("SigPub", func(in *Interp, fn *ssa.Function, args []Value, site ssa.Value) Value {
		return in.bytesToSlice(in.ufBytes("inj/ed25519.pub", 32, bytesOf(in, args[0])))
	})
	r("SigSign", func(in *Interp, fn *ssa.Function, args []Value, site ssa.Value) Value {
		seed, msg := bytesOf(in, args[0]), bytesOf(in, args[1])
		sig := in.ufBytes("ed25519.sign", 64, seed, msg)
		pub := in.ufBytes("inj/ed25519.pub", 32, seed)
		found := false
		for _, s := range in.signs {
			if sameArgs([][]*Term{s.seed, s.msg}, [][]*Term{seed, msg}) {
				found = true
			}
		}
		if !found {
			in.signs = append(in.signs, &signApp{seed: seed, msg: msg, sig: sig, pub: pub})
		}
		return in.bytesToSlice(sig)
	})
	r("SigVerify", func(in *Interp, fn *ssa.Function, args []Value, site ssa.Value) Value {
		pk, msg, sig := bytesOf(in, args[0]), bytesOf(in, args[1]), bytesOf(in, args[2])
		if len(pk) != 32 {
			in.goPanic("ed25519: bad public key length")
			return in.tt.False
		}
		if len(sig) != 64 {
			return in.tt.False
		}
		cp, ok1 := concreteBytes(pk)
		cm, ok2 := concreteBytes(msg)
		cs, ok3 := concreteBytes(sig)
		if ok1 && ok2 && ok3 {
			return in.tt.Bool(ed25519.Verify(ed25519.PublicKey(cp), cm, cs))
		}
		for _, v := range in.verifies {
			if sameArgs([][]*Term{v.pk, v.msg, v.sig}, [][]*Term{pk, msg, sig}) {
				return v.res
			}
		}
		in.nverify++
		res := in.tt.Var("sigverify!"+itoa(in.nverify), 0)
		in.verifies = append(in.verifies, &verifyApp{pk: pk, msg: msg, sig: sig, res: res})
		return res
	})
}

func itoa(n int) string {
	if n == 0 {
		return "0"
	}
	neg := n < 0
	if neg {
		n = -n
	}
	var b []byte
	for n > 0 {
		b = append([]byte{byte('0' + n%10)}, b...)
		n /= 10
	}
	if neg {
		return "-" + string(b)
	}
	return string(b)
}

type signApp struct {
	seed, msg, sig, pub []*Term
}

type verifyApp struct {
	pk, msg, sig []*Term
	res          *Term
}

func sideKey(in *Interp, v Value) interface{} {
	iv, ok := v.(IfaceV)
	if ok {
		v = iv.v
	}
	switch x := v.(type) {
	case PtrV:
		return x
	case *MapObj:
		return x
	case *ChanObj:
		return x
	case StrV:
		if s, ok := x.Concrete(); ok {
			return "str:" + s
		}
	}
	in.abort("SideGet/SideSet: unsupported key %s", describe(v))
	return nil
}

// dynAxioms returns the closed-world ideal-signature axioms for the current path:
// a verification succeeds iff it checks an honest signature produced on this path.
func (in *Interp) dynAxioms() []*Term {
	var out []*Term
	tt := in.tt
	for _, v := range in.verifies {
		var alts []*Term
		for _, s := range in.signs {
			if len(s.msg) != len(v.msg) {
				continue
			}
			alts = append(alts, tt.And(in.bytesEq(v.pk, s.pub), in.bytesEq(v.msg, s.msg), in.bytesEq(v.sig, s.sig)))
		}
		out = append(out, tt.Eq(v.res, tt.Or(alts...)))
	}
	// unique signatures: two honest signatures coincide only for the same key and message (a collision
	// would be a forgery; Ed25519 signatures are deterministic functions of key and message)
	for i := 0; i < len(in.signs); i++ {
		for j := i + 1; j < len(in.signs); j++ {
			a, b := in.signs[i], in.signs[j]
			same := tt.False
			if len(a.msg) == len(b.msg) {
				same = tt.And(in.bytesEq(a.seed, b.seed), in.bytesEq(a.msg, b.msg))
			}
			out = append(out, tt.Or(tt.Not(in.bytesEq(a.sig, b.sig)), same))
		}
	}
	out = append(out, in.aeadAxioms()...)
	return out
}

type sealApp struct {
	key, nonce, ad, pt, ct []*Term
}

type openApp struct {
	key, nonce, ad, ct, pt []*Term
	ok                     *Term
}

func init() {
	r := func(name string, f intrinsicFn) { reg(rtPkgPath+"."+name, f) }
	bytesOf := func(in *Interp, v Value) []*Term {
		switch x := v.(type) {
		case SliceV:
			return in.sliceBytesN(x)
		case StrV:
			return x.b
		}
		in.abort("expected bytes, got %s", describe(v))
		return nil
	}
	r("AeadSeal", func(in *Interp, fn *ssa.Function, args []Value, site ssa.Value) Value {
		key, nonce, ad, pt := bytesOf(in, args[0]), bytesOf(in, args[1]), bytesOf(in, args[2]), bytesOf(in, args[3])
		ct := in.ufBytes("inj/aead.seal", len(pt)+16, key, nonce, ad, pt)
		in.seals = append(in.seals, &sealApp{key: key, nonce: nonce, ad: ad, pt: pt, ct: ct})
		return in.bytesToSlice(ct)
	})
	r("AeadOpen", func(in *Interp, fn *ssa.Function, args []Value, site ssa.Value) Value {
		key, nonce, ad, ct := bytesOf(in, args[0]), bytesOf(in, args[1]), bytesOf(in, args[2]), bytesOf(in, args[3])
		if len(ct) < 16 {
			return TupleV{SliceV{}, in.tt.False}
		}
		for _, o := range in.opens {
			if sameArgs([][]*Term{o.key, o.nonce, o.ad, o.ct}, [][]*Term{key, nonce, ad, ct}) {
				return TupleV{in.bytesToSlice(o.pt), o.ok}
			}
		}
		// correctness of the AEAD: opening exactly what was sealed (syntactically the same key,
		// nonce, AD and ciphertext terms) yields the sealed plaintext
		for _, s := range in.seals {
			if sameArgs([][]*Term{s.key, s.nonce, s.ad, s.ct}, [][]*Term{key, nonce, ad, ct}) {
				return TupleV{in.bytesToSlice(s.pt), in.tt.True}
			}
		}
		in.nverify++
		ok := in.tt.Var("aeadopen!"+itoa(in.nverify), 0)
		n := len(ct) - 16
		pt := make([]*Term, n)
		for i := range pt {
			pt[i] = in.tt.Var("aeadpt!"+itoa(in.nverify)+"["+itoa(i)+"]", 8)
		}
		in.opens = append(in.opens, &openApp{key: key, nonce: nonce, ad: ad, ct: ct, pt: pt, ok: ok})
		return TupleV{in.bytesToSlice(pt), ok}
	})
}

// aeadAxioms: an Open succeeds iff its (key, nonce, ad, ct) match a Seal made on this path, and then
// returns that Seal's plaintext (ideal AEAD, closed world).
func (in *Interp) aeadAxioms() []*Term {
	var out []*Term
	tt := in.tt
	for _, o := range in.opens {
		var alts []*Term
		for _, s := range in.seals {
			if len(s.ct) != len(o.ct) || len(s.ad) != len(o.ad) || len(s.nonce) != len(o.nonce) || len(s.key) != len(o.key) {
				continue
			}
			m := tt.And(in.bytesEq(o.key, s.key), in.bytesEq(o.nonce, s.nonce), in.bytesEq(o.ad, s.ad), in.bytesEq(o.ct, s.ct))
			alts = append(alts, m)
			out = append(out, tt.Implies(m, in.bytesEq(o.pt, s.pt)))
		}
		out = append(out, tt.Eq(o.ok, tt.Or(alts...)))
	}
	return out
}
