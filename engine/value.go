package main

import (
	"fmt"
	"go/types"
	"strings"

	"golang.org/x/tools/go/ssa"
)

// Value is one of:
//   *Term            bool / integer scalar
//   FloatV           concrete float (no symbolic floats)
//   StrV             string: byte terms, concrete length
//   SliceV           slice into an *Agg
//   PtrV             pointer to slot idx of an *Agg
//   *Agg             struct or array value (immutable when held in a register)
//   IfaceV           interface value
//   *MapObj          map (nil pointer = nil map)
//   *ChanObj         channel
//   *FuncV           function value / closure
//   TupleV           multi-value result
//   *Opaque          opaque environment object
type Value interface{}

type FloatV float64

type StrV struct{ b []*Term }

type Agg struct {
	s   []Value
	typ types.Type // informational
	id  int
}

type SliceV struct {
	base          *Agg
	off, len, cap int
}

type PtrV struct {
	base *Agg
	idx  int
	// symbolic element pointer: points at base.s[idx+sym] with 0 <= sym < n (scalar elements only)
	sym *Term
	n   int
}

type IfaceV struct {
	t types.Type
	v Value
}

type mapEntry struct {
	k, v Value
}

type MapObj struct {
	entries []mapEntry
	typ     *types.Map
	id      int
}

type FuncV struct {
	fn   *ssa.Function
	env  []Value
	name string // for native-only function values (intrinsics used as values)
	nat  func(in *Interp, args []Value) Value
}

type TupleV []Value

type Opaque struct {
	id  int
	typ types.Type
	tag string
	aux interface{}
}

type ChanObj struct {
	id     int
	buf    []Value
	cap    int
	closed bool
	elem   types.Type
	// rendezvous for unbuffered channels
	sendq []*chanWaiter
	recvq []*chanWaiter
	tag   string
}

type chanWaiter struct {
	g    *G
	val  Value
	done bool
	ok   bool
}

func (p PtrV) IsNil() bool   { return p.base == nil }
func (s SliceV) IsNil() bool { return s.base == nil }

func intInfo(t types.Type) (w int, signed bool, ok bool) {
	b, isB := types.Unalias(t).Underlying().(*types.Basic)
	if !isB {
		return 0, false, false
	}
	switch b.Kind() {
	case types.Bool, types.UntypedBool:
		return 0, false, true
	case types.Int8:
		return 8, true, true
	case types.Int16:
		return 16, true, true
	case types.Int32, types.UntypedRune:
		return 32, true, true
	case types.Int64, types.Int, types.UntypedInt:
		return 64, true, true
	case types.Uint8:
		return 8, false, true
	case types.Uint16:
		return 16, false, true
	case types.Uint32:
		return 32, false, true
	case types.Uint64, types.Uint, types.Uintptr:
		return 64, false, true
	}
	return 0, false, false
}

func isFloat(t types.Type) bool {
	b, ok := types.Unalias(t).Underlying().(*types.Basic)
	return ok && b.Info()&types.IsFloat != 0
}

func isString(t types.Type) bool {
	b, ok := types.Unalias(t).Underlying().(*types.Basic)
	return ok && b.Info()&types.IsString != 0
}

func (in *Interp) zero(t types.Type) Value {
	switch u := types.Unalias(t).Underlying().(type) {
	case *types.Basic:
		if u.Info()&types.IsString != 0 {
			return StrV{}
		}
		if u.Info()&types.IsFloat != 0 {
			return FloatV(0)
		}
		if u.Kind() == types.UnsafePointer {
			return PtrV{}
		}
		if u.Kind() == types.UntypedNil {
			return nil
		}
		if u.Info()&types.IsComplex != 0 {
			in.abort("complex numbers unsupported")
		}
		w, _, ok := intInfo(u)
		if !ok {
			in.abort("zero: unsupported basic type %s", t)
		}
		return in.tt.Const(w, 0)
	case *types.Pointer:
		return PtrV{}
	case *types.Slice:
		return SliceV{}
	case *types.Map:
		return (*MapObj)(nil)
	case *types.Chan:
		return (*ChanObj)(nil)
	case *types.Signature:
		return (*FuncV)(nil)
	case *types.Interface:
		return IfaceV{}
	case *types.Struct:
		a := &Agg{s: make([]Value, u.NumFields()), typ: t}
		for i := range a.s {
			a.s[i] = in.zero(u.Field(i).Type())
		}
		return a
	case *types.Array:
		n := int(u.Len())
		a := &Agg{s: make([]Value, n), typ: t}
		if n > 0 {
			z := in.zero(u.Elem())
			if _, isAgg := z.(*Agg); isAgg {
				a.s[0] = z
				for i := 1; i < n; i++ {
					a.s[i] = in.zero(u.Elem())
				}
			} else {
				for i := range a.s {
					a.s[i] = z
				}
			}
		}
		return a
	case *types.Tuple:
		tv := make(TupleV, u.Len())
		for i := range tv {
			tv[i] = in.zero(u.At(i).Type())
		}
		return tv
	}
	in.abort("zero: unsupported type %s", t)
	return nil
}

// copyVal deep-copies aggregate values (everything else is immutable or a reference).
func copyVal(v Value) Value {
	a, ok := v.(*Agg)
	if !ok || a == nil {
		return v
	}
	n := &Agg{s: make([]Value, len(a.s)), typ: a.typ}
	for i, x := range a.s {
		if _, isAgg := x.(*Agg); isAgg {
			n.s[i] = copyVal(x)
		} else {
			n.s[i] = x
		}
	}
	return n
}

// storeInto writes v into slot idx of dst, in place for aggregates so that slices and
// pointers aliasing an inline aggregate keep seeing the memory.
func storeInto(dst *Agg, idx int, v Value) {
	if a, ok := v.(*Agg); ok && a != nil {
		if ex, ok2 := dst.s[idx].(*Agg); ok2 && ex != nil && len(ex.s) == len(a.s) {
			if ex == a {
				return
			}
			for i := range a.s {
				storeInto(ex, i, a.s[i])
			}
			return
		}
		dst.s[idx] = copyVal(v)
		return
	}
	dst.s[idx] = v
}

func (in *Interp) load(p PtrV) Value {
	if p.base == nil {
		in.goPanic("nil pointer dereference")
		return nil
	}
	if p.sym != nil {
		return in.selectElem(p.base.s[p.idx:p.idx+p.n], p.sym)
	}
	if p.idx < 0 || p.idx >= len(p.base.s) {
		in.abort("load: pointer out of range")
	}
	return copyVal(p.base.s[p.idx])
}

func (in *Interp) store(p PtrV, v Value) {
	if p.base == nil {
		in.goPanic("nil pointer dereference")
		return
	}
	if p.sym != nil {
		nv, ok := v.(*Term)
		if !ok {
			in.abort("store of non-scalar through symbolic element pointer")
		}
		for k := 0; k < p.n; k++ {
			old := p.base.s[p.idx+k].(*Term)
			p.base.s[p.idx+k] = in.tt.Ite(in.tt.Eq(p.sym, in.tt.Const(p.sym.w, uint64(k))), nv, old)
		}
		return
	}
	storeInto(p.base, p.idx, v)
}

func (in *Interp) newBox(t types.Type) PtrV {
	a := &Agg{s: []Value{in.zero(t)}, typ: t}
	in.nalloc++
	a.id = in.nalloc
	return PtrV{base: a}
}

func (in *Interp) strConst(s string) StrV {
	b := make([]*Term, len(s))
	for i := 0; i < len(s); i++ {
		b[i] = in.tt.Const(8, uint64(s[i]))
	}
	return StrV{b}
}

func (in *Interp) bytesConst(s []byte) SliceV {
	a := &Agg{s: make([]Value, len(s))}
	for i := range s {
		a.s[i] = in.tt.Const(8, uint64(s[i]))
	}
	if s == nil {
		return SliceV{}
	}
	return SliceV{a, 0, len(s), len(s)}
}

// concrete string if all bytes are constants
func (s StrV) Concrete() (string, bool) {
	var sb strings.Builder
	for _, t := range s.b {
		if !t.IsConst() {
			return "", false
		}
		sb.WriteByte(byte(t.c))
	}
	return sb.String(), true
}

func (in *Interp) sliceBytes(s SliceV) []*Term {
	out := make([]*Term, s.len)
	for i := 0; i < s.len; i++ {
		t, ok := s.base.s[s.off+i].(*Term)
		if !ok {
			in.abort("sliceBytes: non-scalar element")
		}
		out[i] = t
	}
	return out
}

func (in *Interp) bytesToSlice(b []*Term) SliceV {
	a := &Agg{s: make([]Value, len(b))}
	for i, t := range b {
		a.s[i] = t
	}
	return SliceV{a, 0, len(b), len(b)}
}

func concreteBytes(b []*Term) ([]byte, bool) {
	out := make([]byte, len(b))
	for i, t := range b {
		if !t.IsConst() {
			return nil, false
		}
		out[i] = byte(t.c)
	}
	return out, true
}

func describe(v Value) string {
	switch x := v.(type) {
	case nil:
		return "<nil>"
	case *Term:
		return x.String()
	case StrV:
		if s, ok := x.Concrete(); ok {
			return fmt.Sprintf("%q", s)
		}
		return fmt.Sprintf("str[%d]", len(x.b))
	case SliceV:
		return fmt.Sprintf("slice[%d:%d/%d]", x.off, x.len, x.cap)
	case PtrV:
		if x.base == nil {
			return "nilptr"
		}
		return fmt.Sprintf("ptr(%d.%d)", x.base.id, x.idx)
	case *Agg:
		return fmt.Sprintf("agg[%d]", len(x.s))
	case IfaceV:
		if x.t == nil {
			return "iface(nil)"
		}
		return fmt.Sprintf("iface(%s:%s)", x.t, describe(x.v))
	case *FuncV:
		if x == nil {
			return "func(nil)"
		}
		if x.fn != nil {
			return "func " + x.fn.String()
		}
		return "func " + x.name
	case *Opaque:
		return fmt.Sprintf("opaque#%d(%s)", x.id, x.tag)
	}
	return fmt.Sprintf("%T", v)
}
