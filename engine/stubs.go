package main

// Idealised primitives: uninterpreted functions over byte vectors with pairwise-instantiated
// axioms (DESIGN.md §3.3). Lengths are concrete per path, so each application has a fixed shape.

import (
	"fmt"
	"strings"
)

type ufApp struct {
	fam     string
	shape   string
	args    [][]*Term
	res     []*Term // result bytes
	resBool *Term
	conc    bool
}

type ufFamily struct {
	injective bool // equal results => equal args (and different shapes => different results)
	native    func(args [][]byte) []byte
}

var ufFamilies = map[string]*ufFamily{}

func shapeOf(fam string, outLen int, args [][]*Term) string {
	var sb strings.Builder
	sb.WriteString(fam)
	for _, a := range args {
		fmt.Fprintf(&sb, "_%d", len(a))
	}
	fmt.Fprintf(&sb, "_o%d", outLen)
	return sb.String()
}

func (in *Interp) concatBytes(b []*Term) *Term {
	if len(b) == 1 {
		return b[0]
	}
	return in.tt.Concat(b...)
}

func allConcrete(args [][]*Term) ([][]byte, bool) {
	out := make([][]byte, len(args))
	for i, a := range args {
		b, ok := concreteBytes(a)
		if !ok {
			return nil, false
		}
		out[i] = b
	}
	return out, true
}

// ufBytes applies family fam to byte-vector arguments, returning outLen result bytes.
func (in *Interp) ufBytes(fam string, outLen int, args ...[]*Term) []*Term {
	f := ufFamilies[fam]
	if f == nil {
		f = &ufFamily{injective: strings.HasPrefix(fam, "inj/")}
	}
	shape := shapeOf(fam, outLen, args)
	// reuse a syntactically identical earlier application
	for _, p := range in.ufApps[fam] {
		if p.shape == shape && sameArgs(p.args, args) {
			return p.res
		}
	}
	app := &ufApp{fam: fam, shape: shape, args: args}
	if cargs, ok := allConcrete(args); ok && f.native != nil {
		r := f.native(cargs)
		if len(r) != outLen {
			in.abort("native %s returned %d bytes, want %d", fam, len(r), outLen)
		}
		app.res = make([]*Term, outLen)
		for i, b := range r {
			app.res[i] = in.tt.Const(8, uint64(b))
		}
		app.conc = true
	} else {
		// Ackermann encoding: the result bytes are fresh variables; functional consistency with
		// every other application of the same shape is added pairwise (addUFAxioms). This keeps
		// every query in plain QF_BV over 8-bit variables (no wide uninterpreted functions).
		in.nufapp++
		app.res = make([]*Term, outLen)
		for i := 0; i < outLen; i++ {
			app.res[i] = in.tt.Var(fmt.Sprintf("uf!%s!%d[%d]", shape, in.nufapp, i), 8)
		}
	}
	in.addUFAxioms(f, app)
	in.ufApps[fam] = append(in.ufApps[fam], app)
	return app.res
}

func sameArgs(a, b [][]*Term) bool {
	if len(a) != len(b) {
		return false
	}
	for i := range a {
		if len(a[i]) != len(b[i]) {
			return false
		}
		for j := range a[i] {
			if a[i][j] != b[i][j] {
				return false
			}
		}
	}
	return true
}

func (in *Interp) argsEq(a, b [][]*Term) *Term {
	if len(a) != len(b) {
		return in.tt.False
	}
	var cs []*Term
	for i := range a {
		cs = append(cs, in.bytesEq(a[i], b[i]))
	}
	return in.tt.And(cs...)
}

func (in *Interp) addUFAxioms(f *ufFamily, app *ufApp) {
	tt := in.tt
	for _, p := range in.ufApps[app.fam] {
		sameShape := p.shape == app.shape
		if p.conc && app.conc {
			continue
		}
		if sameShape {
			ae := in.argsEq(p.args, app.args)
			re := in.bytesEq(p.res, app.res)
			// functional consistency
			in.addAxiom(tt.Implies(ae, re))
			if f.injective {
				in.addAxiom(tt.Implies(re, ae))
			}
		} else if f.injective && len(p.res) == len(app.res) {
			in.addAxiom(tt.Not(in.bytesEq(p.res, app.res)))
		}
	}
}

func (in *Interp) addAxiom(t *Term) {
	if t.IsConst() {
		if t.c == 0 {
			panic(pathEnd{"infeasible", "axiom false"})
		}
		return
	}
	in.pc = append(in.pc, t)
}
