package main

// Incremental path-condition solving: the solver's assertion stack mirrors the path condition
// (one push level per conjunct). Successive queries of a path, and of the next path explored by
// the same worker (which shares a long decision prefix), only send what changed, so z3 keeps its
// bit-blasted state. Query-specific constraints (the condition under test, the closed-world
// axioms) live in one extra level that is popped after each query.

import (
	"fmt"
	"os"
	"path/filepath"
	"strings"
	"time"
)

type incLevel struct {
	term *Term
	defs []int // term ids defined inside this level
}

// defineAt emits definitions for t at the current level and records the ids in *defs.
func (s *Solver) defineAt(t *Term, sb *strings.Builder, defs *[]int) {
	before := s.ndefs
	_ = before
	s.defLog = defs
	s.define(t, sb)
	s.defLog = nil
}

func (s *Solver) popLevels(n int) {
	if n <= 0 {
		return
	}
	for i := 0; i < n; i++ {
		lv := s.levels[len(s.levels)-1]
		for _, id := range lv.defs {
			delete(s.defined, id)
		}
		s.levels = s.levels[:len(s.levels)-1]
	}
	s.send(fmt.Sprintf("(pop %d)\n", n))
	s.purgeUF()
}

func (s *Solver) purgeUF() {
	for k, lv := range s.ufLevel {
		if lv > len(s.levels) {
			delete(s.ufLevel, k)
			delete(s.ufDecl, k)
		}
	}
}

func (s *Solver) readResult() string {
	res := ""
	for {
		line, err := s.readLine()
		if err != nil {
			s.Errors++
			s.LastErr = "solver died: " + err.Error()
			s.restart()
			return "died"
		}
		if line == "" {
			continue
		}
		if strings.HasPrefix(line, "(error") {
			s.Errors++
			s.LastErr = line
			res = "error"
			continue
		}
		if line == "sat" || line == "unsat" || line == "unknown" || line == "timeout" {
			if res == "" {
				res = line
			}
			return res
		}
		if strings.HasPrefix(line, "unsupported") || strings.HasPrefix(line, ";") {
			continue
		}
		s.LastErr = "unexpected solver output: " + line
		s.Errors++
		res = "error"
	}
}

func (s *Solver) account(res string) string {
	switch res {
	case "sat":
		s.Sat++
	case "unsat":
		s.Unsat++
	default:
		s.Unknown++
		res = "unknown"
	}
	return res
}

// CheckPC decides pc ∧ extras. pc is kept on the solver's assertion stack between calls.
func (s *Solver) CheckPC(pc []*Term, extras []*Term, wantVals []*Term) (string, map[int]uint64) {
	t0 := time.Now()
	defer func() { s.Wall += time.Since(t0) }()
	s.Queries++
	flat := func() []*Term {
		all := make([]*Term, 0, len(pc)+len(extras))
		all = append(all, pc...)
		return append(all, extras...)
	}
	// Measured: mirroring the path condition on z3's push stack is 5-20x slower than re-asserting
	// it flat for every query (z3 4.8.12's incremental core degrades with scope depth on
	// QF_UFBV), so the stack-aligned mode below is disabled.
	if s.kind == "cvc5" || !stackAligned {
		s.Queries--
		return s.checkFlat(flat(), wantVals)
	}
	if s.skipInc > 0 {
		s.skipInc--
		r, v := s.oneShot(flat(), wantVals, s.timeout)
		return s.account(r), v
	}
	if s.ndefs > 600000 {
		s.restart()
	}
	// align the assertion stack with pc
	lcp := 0
	for lcp < len(s.levels) && lcp < len(pc) && s.levels[lcp].term == pc[lcp] {
		lcp++
	}
	s.popLevels(len(s.levels) - lcp)
	var sb strings.Builder
	for _, t := range pc[lcp:] {
		sb.WriteString("(push 1)\n")
		lv := incLevel{term: t}
		s.curLevel = len(s.levels) + 1
		s.defineAt(t, &sb, &lv.defs)
		fmt.Fprintf(&sb, "(assert %s)\n", s.ref(t))
		s.levels = append(s.levels, lv)
	}
	// query level
	sb.WriteString("(push 1)\n")
	var qdefs []int
	s.curLevel = len(s.levels) + 1
	for _, t := range extras {
		s.defineAt(t, &sb, &qdefs)
		fmt.Fprintf(&sb, "(assert %s)\n", s.ref(t))
	}
	for _, v := range wantVals {
		s.defineAt(v, &sb, &qdefs)
	}
	sb.WriteString("(check-sat)\n")
	s.send(sb.String())
	res := s.readResult()
	if res == "died" {
		// restart() cleared all state
		r, v := s.oneShot(flat(), wantVals, s.timeout)
		return s.account(r), v
	}
	var vals map[int]uint64
	if res == "sat" && len(wantVals) > 0 {
		vals = map[int]uint64{}
		for i := 0; i < len(wantVals); i += 200 {
			j := i + 200
			if j > len(wantVals) {
				j = len(wantVals)
			}
			var q strings.Builder
			q.WriteString("(get-value (")
			for _, v := range wantVals[i:j] {
				q.WriteString(s.ref(v) + " ")
			}
			q.WriteString("))\n")
			s.send(q.String())
			txt, err := s.readSexp()
			if err != nil || strings.HasPrefix(txt, "(error") {
				s.Errors++
				s.LastErr = "get-value: " + txt
				res = "error"
				break
			}
			parsed := parseValues(txt)
			if len(parsed) != j-i {
				s.Errors++
				s.LastErr = fmt.Sprintf("get-value parse: got %d want %d: %s", len(parsed), j-i, txt)
				res = "error"
				break
			}
			for k, v := range wantVals[i:j] {
				vals[v.id] = parsed[k]
			}
		}
	}
	for _, id := range qdefs {
		delete(s.defined, id)
	}
	s.send("(pop 1)\n")
	s.purgeUF()
	if res != "sat" && res != "unsat" {
		s.skipInc = 40
		r2, v2 := s.oneShot(flat(), wantVals, s.timeout)
		if r2 != "unknown" {
			res, vals = r2, v2
		}
	}
	if d := os.Getenv("GOSMT_DUMP_SLOW"); d != "" && (time.Since(t0) > 2*time.Second || (res != "sat" && res != "unsat")) {
		os.MkdirAll(d, 0o755)
		os.WriteFile(filepath.Join(d, fmt.Sprintf("q%d-%d-%s.smt2", os.Getpid(), s.Queries, res)), []byte(Standalone(flat(), "")), 0o644)
	}
	return s.account(res), vals
}

// Check decides a flat conjunction (no stack reuse).
func (s *Solver) Check(assertions []*Term, wantVals []*Term) (string, map[int]uint64) {
	return s.CheckPC(nil, assertions, wantVals)
}
