package main

import (
	"go/types"

	"golang.org/x/tools/go/ssa"
)

func init() {
	reg("internal/bytealg.MakeNoZero", func(in *Interp, fn *ssa.Function, args []Value, site ssa.Value) Value {
		n, ok := in.allocLen(args[0].(*Term), types.Typ[types.Uint8], "makeslice: len out of range")
		if !ok {
			return SliceV{}
		}
		return in.makeSlice(types.Typ[types.Uint8], n, n)
	})
}
