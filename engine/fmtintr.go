package main

import (
	"fmt"
	"go/types"
	"strings"

	"golang.org/x/tools/go/ssa"
)

// fmtArg converts an interpreter value to a native Go value for formatting, or a placeholder.
func (in *Interp) fmtArg(v Value) interface{} {
	iv, ok := v.(IfaceV)
	if !ok {
		return "<?>"
	}
	if iv.t == nil {
		return nil
	}
	// types with Error()/String() methods format through them in the real library: placeholder
	if in.methodByName(iv.t, "Error") != nil || in.methodByName(iv.t, "String") != nil || in.methodByName(iv.t, "Format") != nil {
		return "<" + types.TypeString(iv.t, func(p *types.Package) string { return p.Name() }) + ">"
	}
	switch x := iv.v.(type) {
	case *Term:
		if !x.IsConst() {
			return "<sym>"
		}
		w, signed, _ := intInfo(iv.t)
		if w == 0 {
			return x.c != 0
		}
		if signed {
			return x.S()
		}
		return x.c
	case StrV:
		if s, ok := x.Concrete(); ok {
			return s
		}
		return "<symstr>"
	case SliceV:
		if x.base == nil {
			return []byte(nil)
		}
		if len(x.base.s) > 0 {
			if _, isT := x.base.s[0].(*Term); isT {
				if b, ok := concreteBytes(in.sliceBytes(x)); ok {
					if bt, _ := types.Unalias(iv.t).Underlying().(*types.Slice); bt != nil {
						if eb, _ := bt.Elem().Underlying().(*types.Basic); eb != nil && eb.Kind() == types.Uint8 {
							return b
						}
					}
				}
			}
		}
		return "<slice>"
	case FloatV:
		return float64(x)
	}
	return "<" + iv.t.String() + ">"
}

func (in *Interp) sprintf(format Value, argv Value) string {
	f, ok := format.(StrV).Concrete()
	if !ok {
		in.pathNotes = append(in.pathNotes, "fmt: symbolic format string -> placeholder")
		return "<fmt>"
	}
	var args []interface{}
	if s, ok := argv.(SliceV); ok {
		for i := 0; i < s.len; i++ {
			args = append(args, in.fmtArg(s.base.s[s.off+i]))
		}
	}
	f = strings.ReplaceAll(f, "%w", "%v")
	return fmt.Sprintf(f, args...)
}

func (in *Interp) sprint(argv Value, ln bool) string {
	var args []interface{}
	if s, ok := argv.(SliceV); ok {
		for i := 0; i < s.len; i++ {
			args = append(args, in.fmtArg(s.base.s[s.off+i]))
		}
	}
	if ln {
		return fmt.Sprintln(args...)
	}
	return fmt.Sprint(args...)
}

func (in *Interp) newError(msg string) Value {
	ep := in.w.prog.ImportedPackage("errors")
	if ep == nil {
		in.abort("errors package not loaded")
	}
	return in.callSync(&FuncV{fn: ep.Func("New")}, []Value{in.strConst(msg)})
}

func init() {
	reg("fmt.Sprintf", func(in *Interp, fn *ssa.Function, args []Value, site ssa.Value) Value {
		return in.strConst(in.sprintf(args[0], args[1]))
	})
	reg("fmt.Sprint", func(in *Interp, fn *ssa.Function, args []Value, site ssa.Value) Value {
		return in.strConst(in.sprint(args[0], false))
	})
	reg("fmt.Sprintln", func(in *Interp, fn *ssa.Function, args []Value, site ssa.Value) Value {
		return in.strConst(in.sprint(args[0], true))
	})
	for _, n := range []string{"fmt.Printf", "fmt.Println", "fmt.Print", "fmt.Fprintf", "fmt.Fprintln", "fmt.Fprint"} {
		reg(n, func(in *Interp, fn *ssa.Function, args []Value, site ssa.Value) Value {
			return TupleV{in.tt.Const(64, 0), IfaceV{}}
		})
	}
	reg("fmt.Errorf", func(in *Interp, fn *ssa.Function, args []Value, site ssa.Value) Value {
		msg := in.sprintf(args[0], args[1])
		f, _ := args[0].(StrV).Concrete()
		// locate %w operands
		var wrapped []Value
		if strings.Contains(f, "%w") {
			argi := 0
			s := args[1].(SliceV)
			for i := 0; i < len(f); i++ {
				if f[i] != '%' {
					continue
				}
				i++
				for i < len(f) && strings.ContainsRune("+-# 0123456789.", rune(f[i])) {
					i++
				}
				if i >= len(f) {
					break
				}
				if f[i] == '%' {
					continue
				}
				if f[i] == 'w' && argi < s.len {
					if iv, ok := s.base.s[s.off+argi].(IfaceV); ok && iv.t != nil {
						wrapped = append(wrapped, iv)
					}
				}
				argi++
			}
		}
		if len(wrapped) == 1 {
			fp := in.w.prog.ImportedPackage("fmt")
			wt := fp.Type("wrapError")
			if wt == nil {
				in.abort("fmt.wrapError not found")
			}
			box := in.newBox(wt.Type())
			st := box.base.s[0].(*Agg)
			st.s[0] = in.strConst(msg)
			st.s[1] = wrapped[0]
			return IfaceV{t: types.NewPointer(wt.Type()), v: box}
		}
		if len(wrapped) > 1 {
			in.abort("fmt.Errorf with multiple %%w unsupported")
		}
		return in.newError(msg)
	})
	// errors.Is: walk the Unwrap chain
	reg("errors.Is", func(in *Interp, fn *ssa.Function, args []Value, site ssa.Value) Value {
		err, target := args[0].(IfaceV), args[1].(IfaceV)
		if err.t == nil || target.t == nil {
			return in.tt.Bool(err.t == nil && target.t == nil)
		}
		return in.tt.Bool(in.errorsIs(err, target, 0))
	})
	reg("errors.As", func(in *Interp, fn *ssa.Function, args []Value, site ssa.Value) Value {
		err := args[0].(IfaceV)
		tgt := args[1].(IfaceV)
		if tgt.t == nil {
			in.goPanic("errors: target cannot be nil")
			return in.tt.False
		}
		pt, ok := types.Unalias(tgt.t).Underlying().(*types.Pointer)
		if !ok {
			in.goPanic("errors: target must be a non-nil pointer")
			return in.tt.False
		}
		elem := pt.Elem()
		for depth := 0; err.t != nil && depth < 32; depth++ {
			match := false
			if it, isI := types.Unalias(elem).Underlying().(*types.Interface); isI {
				match = in.implements(err.t, it)
			} else {
				match = types.Identical(err.t, elem)
			}
			if match {
				if _, isI := types.Unalias(elem).Underlying().(*types.Interface); isI {
					in.store(tgt.v.(PtrV), err)
				} else {
					in.store(tgt.v.(PtrV), err.v)
				}
				return in.tt.True
			}
			uw := in.methodByName(err.t, "Unwrap")
			if uw == nil || uw.Signature.Results().Len() != 1 {
				break
			}
			r, ok := in.callSync(&FuncV{fn: uw}, []Value{err.v}).(IfaceV)
			if !ok {
				break
			}
			err = r
		}
		return in.tt.False
	})
	// logrus: loggers are inert; With* return the receiver
	logrusFn := func(in *Interp, fn *ssa.Function, args []Value, site ssa.Value) Value {
		res := fn.Signature.Results()
		if res.Len() == 0 {
			return nil
		}
		if res.Len() == 1 {
			rt := res.At(0).Type()
			if fn.Signature.Recv() != nil && types.Identical(rt, fn.Signature.Recv().Type()) {
				return args[0]
			}
			if _, isPtr := types.Unalias(rt).Underlying().(*types.Pointer); isPtr {
				return in.newBox(types.Unalias(rt).Underlying().(*types.Pointer).Elem())
			}
			return in.zero(rt)
		}
		return in.zero(res)
	}
	regPrefix("(*github.com/sirupsen/logrus.Entry).", logrusFn)
	regPrefix("(*github.com/sirupsen/logrus.Logger).", logrusFn)
	regPrefix("(github.com/sirupsen/logrus.Level).", logrusFn)
	regPrefix("github.com/sirupsen/logrus.", logrusFn)
}

func (in *Interp) errorsIs(err, target IfaceV, depth int) bool {
	if depth > 32 || err.t == nil {
		return false
	}
	if types.Comparable(target.t) && types.Identical(err.t, target.t) {
		e := in.valEq(err.v, target.v)
		if in.decide(e) {
			return true
		}
	}
	if isM := in.methodByName(err.t, "Is"); isM != nil && isM.Signature.Params().Len() == 1 {
		r := in.callSync(&FuncV{fn: isM}, []Value{err.v, target})
		if t, ok := r.(*Term); ok && in.decide(t) {
			return true
		}
	}
	uw := in.methodByName(err.t, "Unwrap")
	if uw == nil || uw.Signature.Results().Len() != 1 {
		return false
	}
	r := in.callSync(&FuncV{fn: uw}, []Value{err.v})
	switch x := r.(type) {
	case IfaceV:
		return in.errorsIs(x, target, depth+1)
	case SliceV:
		for i := 0; i < x.len; i++ {
			if e, ok := x.base.s[x.off+i].(IfaceV); ok && in.errorsIs(e, target, depth+1) {
				return true
			}
		}
	}
	return false
}
