package main

import (
	"crypto/sha256"
	"encoding/hex"
	"encoding/json"
	"flag"
	"fmt"
	"go/constant"
	"os"
	"os/exec"
	"path/filepath"
	"sort"
	"strconv"
	"strings"
	"time"

	"golang.org/x/tools/go/ssa"
)

type GroupSpec struct {
	Pkg     string     `json:"pkg"`
	Files   []string   `json:"files"`
	Entries []EntryCfg `json:"entries"`
	Models  []string   `json:"models,omitempty"` // optional model tags enabled for this group
	// NoNative: the harness depends on environment stubs that exist only under the engine (model
	// certificates, model QUIC connections): a counterexample cannot be replayed against the native
	// build and is confirmed by deterministic re-execution of the real SSA along the recorded path.
	NoNative bool `json:"no_native,omitempty"`
}

type PropSpec struct {
	Property    string      `json:"property"`
	Groups      []GroupSpec `json:"groups"`
	Assumptions []string    `json:"assumptions"`
	Bounds      interface{} `json:"bounds"`
	Encoded     []string    `json:"functions_encoded"`
	Outside     []string    `json:"outside"`
}

type replayRec struct {
	Entry  string       `json:"entry"`
	Label  string       `json:"label"`
	Msg    string       `json:"msg"`
	Site   string       `json:"site"`
	Inputs []ReplayItem `json:"inputs"`
	Tier   int          `json:"tier"`
	Sched  []string     `json:"sched,omitempty"`
	Pkg    string       `json:"pkg"`
	Files  []string     `json:"files"`
}

func harnessDir(prop string) string { return filepath.Join(verifDir, "harness", prop) }

// expectedLabels scans the entry function and the harness-file functions it reaches for
// rt.Reach / rt.Assert labels.
func expectedLabels(w *World, entry *ssa.Function) (reach []string, asserts []string) {
	seen := map[*ssa.Function]bool{}
	rs, as := map[string]bool{}, map[string]bool{}
	var walk func(fn *ssa.Function)
	walk = func(fn *ssa.Function) {
		if fn == nil || seen[fn] || fn.Blocks == nil {
			return
		}
		seen[fn] = true
		for _, af := range fn.AnonFuncs {
			walk(af)
		}
		for _, b := range fn.Blocks {
			for _, ins := range b.Instrs {
				var cc *ssa.CallCommon
				switch x := ins.(type) {
				case *ssa.Call:
					cc = &x.Call
				case *ssa.Go:
					cc = &x.Call
				case *ssa.Defer:
					cc = &x.Call
				}
				if cc == nil {
					continue
				}
				callee := cc.StaticCallee()
				if callee == nil {
					continue
				}
				key := callee.String()
				if key == rtPkgPath+".Reach" || key == rtPkgPath+".Assert" {
					if c, ok := cc.Args[0].(*ssa.Const); ok && c.Value != nil {
						l := constant.StringVal(c.Value)
						if key == rtPkgPath+".Reach" {
							rs[l] = true
						} else {
							as[l] = true
						}
					}
					continue
				}
				pos := w.prog.Fset.Position(callee.Pos())
				if strings.Contains(filepath.Base(pos.Filename), "zz_verif_") {
					walk(callee)
				}
			}
		}
	}
	walk(entry)
	for l := range rs {
		reach = append(reach, l)
	}
	for l := range as {
		asserts = append(asserts, l)
	}
	sort.Strings(reach)
	sort.Strings(asserts)
	return
}

type entryOutcome struct {
	res       *Result
	cfg       EntryCfg
	group     GroupSpec
	vacuous   []string
	expectedR []string
	expectedA []string
	w         *World
	fn        *ssa.Function
	xcfg      Config
	tier      int
}

// reexecute runs exactly one recorded path again (same decisions, same schedule) and reports whether
// the same violation label recurs: deterministic confirmation of a schedule-dependent
// counterexample against the real SSA.
func (oc *entryOutcome) reexecute(v Violation) bool {
	cfg := oc.xcfg
	cfg.Workers = 1
	cfg.MaxPaths = 1
	ex := NewExplorer(oc.w, oc.fn, cfg)
	ex.tier = oc.tier
	ex.initial = append([]int64{}, v.Path...)
	res := ex.Run()
	for _, rv := range res.Violations {
		if rv.Label == v.Label && rv.Site == v.Site {
			return true
		}
	}
	return false
}

func cmdCheck(args []string) int {
	fs := flag.NewFlagSet("check", flag.ExitOnError)
	tierS := fs.String("tier", "", "quick|thorough")
	only := fs.String("entry", "", "run only this entry")
	noReplay := fs.Bool("noreplay", false, "skip native replay (development)")
	workers := fs.Int("workers", 0, "workers")
	budget := fs.Duration("budget", 0, "per-entry time budget (development; exceeding it is inconclusive)")
	fs.Parse(args)
	if fs.NArg() < 1 {
		fmt.Fprintln(os.Stderr, "usage: gosmt check Cxx [--tier quick|thorough]")
		return 2
	}
	// flags may follow the property id
	prop := fs.Arg(0)
	if fs.NArg() > 1 {
		fs.Parse(fs.Args()[1:])
	}
	tierName := *tierS
	if tierName == "" {
		tierName = os.Getenv("VERIF_TIER")
	}
	if tierName == "" {
		tierName = "quick"
	}
	tier := 0
	if tierName == "thorough" {
		tier = 1
	}
	seed, _ := strconv.Atoi(os.Getenv("VERIF_SEED"))
	t0 := time.Now()

	specData, err := os.ReadFile(filepath.Join(harnessDir(prop), "spec.json"))
	if err != nil {
		fmt.Fprintln(os.Stderr, "spec:", err)
		return 2
	}
	var spec PropSpec
	if err := json.Unmarshal(specData, &spec); err != nil {
		fmt.Fprintln(os.Stderr, "spec:", err)
		return 2
	}
	known := loadKnown()
	var outcomes []*entryOutcome
	loadFail := ""
	var groupLoadFails []string
	for _, g := range spec.Groups {
		var files []string
		for _, f := range g.Files {
			files = append(files, filepath.Join(harnessDir(prop), f))
		}
		optModels = map[string]bool{}
		for _, m := range g.Models {
			optModels[m] = true
		}
		w, tp, err := loadWorld(g.Pkg, files)
		if err != nil {
			// a group that does not load (a harness no longer compiles against the tree) fails the check
			// with exit 2 unless another group of the property produces a confirmed counterexample
			groupLoadFails = append(groupLoadFails, g.Pkg+": "+err.Error())
			continue
		}
		for _, e := range g.Entries {
			if *only != "" && e.Name != *only {
				continue
			}
			if e.Tiers != "" && e.Tiers != tierName {
				continue
			}
			fn := tp.Func(e.Name)
			if fn == nil {
				loadFail = "entry " + e.Name + " not found in " + g.Pkg
				break
			}
			cfg := defaultCfg()
			cfg.Known = known
			if *workers > 0 {
				cfg.Workers = *workers
			}
			if e.Unwind > 0 {
				cfg.Unwind = e.Unwind
			}
			if e.ConcCap > 0 {
				cfg.ConcCap = e.ConcCap
			}
			cfg.Preempt = e.Preempt
			cfg.MaxPaths = e.MaxPaths
			cfg.TimeBudget = *budget
			if e.TimeoutS > 0 && cfg.TimeBudget == 0 {
				cfg.TimeBudget = time.Duration(e.TimeoutS) * time.Second
			}
			if cfg.TimeBudget == 0 {
				// a run always ends: an entry that exceeds its budget (a changed tree can blow up the
				// path count) is reported as inconclusive, together with any counterexample found so far
				cfg.TimeBudget = 20 * time.Minute
				if tier == 1 {
					cfg.TimeBudget = 90 * time.Minute
				}
			}
			if tier == 1 {
				cfg.TimeoutMs = 120000
			}
			ex := NewExplorer(w, fn, cfg)
			ex.tier = tier
			res := ex.Run()
			oc := &entryOutcome{res: res, cfg: e, group: g, w: w, fn: fn, xcfg: cfg, tier: tier}
			oc.expectedR, oc.expectedA = expectedLabels(w, fn)
			for _, l := range oc.expectedR {
				if res.Reach[l] == 0 {
					oc.vacuous = append(oc.vacuous, "reach:"+l)
				}
			}
			for _, l := range oc.expectedA {
				if res.Asserts[l] == 0 {
					oc.vacuous = append(oc.vacuous, "assert:"+l)
				}
			}
			outcomes = append(outcomes, oc)
			fmt.Printf("[%s] %s: paths=%d %v queries=%d unknown=%d wall=%.1fs violations=%d\n", prop, e.Name, res.Paths, res.PathKinds, res.Queries, res.Unknown, res.Wall.Seconds(), len(res.Violations))
		}
		if loadFail != "" {
			break
		}
	}
	if loadFail == "" && len(outcomes) == 0 && len(groupLoadFails) > 0 {
		loadFail = strings.Join(groupLoadFails, "; ")
	}
	if loadFail != "" {
		fmt.Printf("[%s] LOAD-FAILURE: %s\n", prop, loadFail)
		writeEvidence(prop, tierName, seed, &spec, outcomes, nil, 0, 0, time.Since(t0), "load failure: "+loadFail)
		return 2
	}

	// classify
	exit := 0
	inconclusive := []string{}
	type vrec struct {
		v  Violation
		oc *entryOutcome
	}
	var fresh, knownV []vrec
	for _, oc := range outcomes {
		r := oc.res
		for k, n := range r.Aborts {
			inconclusive = append(inconclusive, fmt.Sprintf("%s: abort x%d: %s", r.Entry, n, k))
		}
		for k, n := range r.Bounds {
			inconclusive = append(inconclusive, fmt.Sprintf("%s: bound x%d: %s", r.Entry, n, k))
		}
		if r.Unknown > 0 || r.SolverErr > 0 {
			inconclusive = append(inconclusive, fmt.Sprintf("%s: solver unknown=%d errors=%d (%s)", r.Entry, r.Unknown, r.SolverErr, r.LastSolverErr))
		}
		if r.Truncated {
			inconclusive = append(inconclusive, r.Entry+": exploration truncated (path/time budget)")
		}
		if r.PathKinds["deadlock"] > 0 {
			inconclusive = append(inconclusive, fmt.Sprintf("%s: %d deadlocked paths", r.Entry, r.PathKinds["deadlock"]))
		}
		for _, v := range oc.vacuous {
			inconclusive = append(inconclusive, r.Entry+": VACUOUS "+v)
		}
		for _, v := range r.Violations {
			if v.Known != "" {
				knownV = append(knownV, vrec{v, oc})
			} else {
				fresh = append(fresh, vrec{v, oc})
			}
		}
	}
	// native replay
	replays := 0
	confirmed := 0
	var vioLines []string
	var sampleViolations []interface{}
	replayDir := filepath.Join(outDir, "replays")
	os.MkdirAll(replayDir, 0o755)
	knownPrinted := map[string]bool{}
	doReplay := func(vr vrec) (string, string) {
		rec := replayRec{Entry: vr.v.Entry, Label: vr.v.Label, Msg: vr.v.Msg, Site: vr.v.Site, Inputs: vr.v.Inputs, Tier: tier, Sched: vr.v.Sched, Pkg: vr.oc.group.Pkg, Files: vr.oc.group.Files}
		data, _ := json.MarshalIndent(rec, "", " ")
		h := sha256.Sum256(data)
		path := filepath.Join(replayDir, fmt.Sprintf("%s-%s.json", prop, hex.EncodeToString(h[:6])))
		os.WriteFile(path, data, 0o644)
		if *noReplay {
			return path, "skipped"
		}
		replays++
		out := nativeReplay(prop, vr.oc.group, path)
		return path, out
	}
	// group fresh violations by key, replay up to 3 per key
	// per (assertion, site): replay candidates until two are confirmed; candidates that do not
	// reproduce are reported as spurious only if no candidate of that key reproduced
	perKeyConfirmed := map[string]int{}
	perKeySpurious := map[string][]string{}
	for _, vr := range fresh {
		key := vr.v.Label + "|" + vr.v.Site
		if perKeyConfirmed[key] >= 2 || (perKeyConfirmed[key] >= 1 && len(perKeySpurious[key]) > 0) {
			continue
		}
		path, out := doReplay(vr)
		if strings.HasPrefix(out, "violated") {
			// the native run stops at the first failed assertion of the harness. It confirms the
			// counterexample unless that assertion is one the engine evaluated on this very path and
			// found to hold (e.g. a set-up assertion that fails natively only because an engine-only
			// stub is missing): then the native run says nothing about this counterexample.
			nl := strings.TrimPrefix(out, "violated label=")
			for _, p := range vr.v.Passed {
				if p == nl {
					out = "other-" + out
					break
				}
			}
		}
		nativePanicOnAssert := strings.HasPrefix(out, "panic") && !strings.HasPrefix(vr.v.Label, "panic")
		if vr.oc.group.NoNative || nativePanicOnAssert {
			if nativePanicOnAssert {
				// the solver refuted an assertion but the native run of the harness panicked: the harness
				// leans on an engine-only stub at that point, so the native run says nothing either way
				out = "not-applicable (native harness panicked: " + strings.TrimPrefix(out, "panic ") + ")"
			} else {
				out = "not-applicable (engine-only environment stubs)"
			}
			if vr.oc.reexecute(vr.v) {
				perKeyConfirmed[key]++
				confirmed++
				exit = 1
				vioLines = append(vioLines, fmt.Sprintf("VIOLATION property=%s replay=%s", prop, path))
				fmt.Printf("  violation %s at %s: %s [native: %s; re-executed along the recorded path: reproduced]\n", vr.v.Label, vr.v.Site, vr.v.Msg, out)
				sampleViolations = append(sampleViolations, map[string]interface{}{"label": vr.v.Label, "site": vr.v.Site, "native": out, "replay": path})
				continue
			}
		}
		switch {
		case strings.HasPrefix(out, "violated") || strings.HasPrefix(out, "panic") || out == "skipped":
			perKeyConfirmed[key]++
			confirmed++
			exit = 1
			vioLines = append(vioLines, fmt.Sprintf("VIOLATION property=%s replay=%s", prop, path))
			fmt.Printf("  violation %s at %s: %s [native: %s]\n", vr.v.Label, vr.v.Site, vr.v.Msg, out)
			sampleViolations = append(sampleViolations, map[string]interface{}{"label": vr.v.Label, "site": vr.v.Site, "native": out, "replay": path})
		default:
			if len(vr.v.Sched) > 1 && vr.oc.reexecute(vr.v) {
				// schedule-dependent: the native scheduler cannot be forced without instrumenting the
				// repository; the counterexample is confirmed by deterministic re-execution of the
				// real SSA under the recorded schedule
				confirmed++
				perKeyConfirmed[key]++
				exit = 1
				vioLines = append(vioLines, fmt.Sprintf("VIOLATION property=%s replay=%s", prop, path))
				fmt.Printf("  violation %s at %s: %s [schedule-dependent; native: %s; re-executed under the recorded schedule %v: reproduced]\n", vr.v.Label, vr.v.Site, vr.v.Msg, out, vr.v.Sched)
				sampleViolations = append(sampleViolations, map[string]interface{}{"label": vr.v.Label, "site": vr.v.Site, "native": out, "replay": path, "schedule": vr.v.Sched})
				break
			}
			perKeySpurious[key] = append(perKeySpurious[key], fmt.Sprintf("%s: SPURIOUS counterexample for %s at %s (native replay: %s) replay=%s", vr.v.Entry, vr.v.Label, vr.v.Site, out, path))
		}
	}
	for key, sp := range perKeySpurious {
		if perKeyConfirmed[key] == 0 {
			inconclusive = append(inconclusive, sp[0])
			if len(sp) > 1 {
				inconclusive = append(inconclusive, fmt.Sprintf("(%d further candidates for the same assertion did not reproduce either)", len(sp)-1))
			}
		} else {
			fmt.Printf("  note: %d other candidate(s) for %q did not reproduce natively (they depend on values of idealised primitives)\n", len(sp), key)
		}
	}
	var knownHit []string
	for _, vr := range knownV {
		if knownPrinted[vr.v.Known] {
			continue
		}
		knownPrinted[vr.v.Known] = true
		ke := known[vr.v.Known]
		native := "not replayed"
		if !*noReplay {
			_, native = doReplay(vr)
		}
		fmt.Printf("KNOWN-FINDING: property=%s %s: %s [native: %s]\n", prop, ke.ID, ke.What, native)
		knownHit = append(knownHit, ke.ID)
		if !(strings.HasPrefix(native, "violated") || strings.HasPrefix(native, "panic") || native == "not replayed") {
			// a counterexample that depends on values of idealised primitives (e.g. which byte strings
			// decrypt to valid curve points) need not reproduce with the solver's inputs; the finding
			// itself was confirmed natively when it was recorded (DESIGN.md §10)
			fmt.Printf("  note: the solver's inputs for known finding %s did not reproduce natively this time (%s)\n", ke.ID, native)
		}
	}
	for _, l := range vioLines {
		fmt.Println(l)
	}
	if len(groupLoadFails) > 0 {
		for _, lf := range groupLoadFails {
			fmt.Printf("[%s] LOAD-FAILURE (group): %s\n", prop, lf)
		}
		if exit != 1 {
			writeEvidence(prop, tierName, seed, &spec, outcomes, nil, replays, confirmed, time.Since(t0), "load failure: "+strings.Join(groupLoadFails, "; "))
			return 2
		}
	}
	status := "ok"
	if exit == 0 && len(inconclusive) > 0 {
		exit = 3
		status = "inconclusive"
	}
	if exit == 1 {
		status = "violation"
	}
	for _, s := range inconclusive {
		fmt.Printf("  INCONCLUSIVE: %s\n", s)
	}
	writeEvidence(prop, tierName, seed, &spec, outcomes, knownHit, replays, confirmed, time.Since(t0), status+": "+strings.Join(inconclusive, "; "))
	fmt.Printf("[%s] tier=%s status=%s wall=%.1fs\n", prop, tierName, status, time.Since(t0).Seconds())
	return exit
}

// nativeReplay compiles the harness into the real package (overlay) and runs the entry natively.
func nativeReplay(prop string, g GroupSpec, replayPath string) string {
	tmp, err := os.MkdirTemp("", "gosmt-replay-")
	if err != nil {
		return "error " + err.Error()
	}
	defer os.RemoveAll(tmp)
	pkgDir := filepath.Join(repoDir, strings.TrimPrefix(g.Pkg, "./"))
	repl := map[string]string{
		filepath.Join(repoDir, "zz_verifrt", "rt.go"): filepath.Join(verifDir, "rt", "rt.go"),
	}
	rtFiles, err := rtFilesFor(g.Pkg)
	if err != nil {
		return "error " + err.Error()
	}
	for _, f := range rtFiles {
		repl[filepath.Join(repoDir, "zz_verifrt", filepath.Base(f))] = f
	}
	pkgName := ""
	for _, f := range g.Files {
		src := filepath.Join(harnessDir(prop), f)
		repl[filepath.Join(pkgDir, "zz_verif_"+filepath.Base(f))] = src
		if pkgName == "" {
			data, _ := os.ReadFile(src)
			for _, ln := range strings.Split(string(data), "\n") {
				if strings.HasPrefix(ln, "package ") {
					pkgName = strings.TrimSpace(strings.TrimPrefix(ln, "package "))
					break
				}
			}
		}
	}
	var sb strings.Builder
	fmt.Fprintf(&sb, "package %s\n\nimport (\n\t\"testing\"\n\trt \"%s\"\n)\n\nfunc TestZZVerifReplay(t *testing.T) {\n\trt.RunReplay(map[string]func(){\n", pkgName, rtPkgPath)
	for _, e := range g.Entries {
		fmt.Fprintf(&sb, "\t\t%q: %s,\n", e.Name, e.Name)
	}
	sb.WriteString("\t})\n}\n")
	testFile := filepath.Join(tmp, "zz_verif_replay_test.go")
	os.WriteFile(testFile, []byte(sb.String()), 0o644)
	repl[filepath.Join(pkgDir, "zz_verif_replay_test.go")] = testFile
	ov, _ := json.Marshal(map[string]interface{}{"Replace": repl})
	ovPath := filepath.Join(tmp, "overlay.json")
	os.WriteFile(ovPath, ov, 0o644)
	cmd := exec.Command("go", "test", "-overlay", ovPath, "-vet=off", "-count=1", "-run", "^TestZZVerifReplay$", "-v", "-timeout", "120s", g.Pkg)
	cmd.Dir = repoDir
	env := []string{}
	for _, e := range os.Environ() {
		if strings.HasPrefix(e, "GOTOOLCHAIN=") || strings.HasPrefix(e, "GOFLAGS=") || strings.HasPrefix(e, "GOSUMDB=") {
			continue
		}
		env = append(env, e)
	}
	env = append(env, "GOFLAGS=-mod=mod", "GOPROXY=off", "VERIF_REPLAY="+replayPath)
	cmd.Env = env
	out, err := cmd.CombinedOutput()
	for _, ln := range strings.Split(string(out), "\n") {
		if i := strings.Index(ln, "REPLAY-RESULT: "); i >= 0 {
			return strings.TrimSpace(ln[i+len("REPLAY-RESULT: "):])
		}
	}
	tail := string(out)
	if len(tail) > 600 {
		tail = tail[len(tail)-600:]
	}
	return "error no result: " + strings.ReplaceAll(tail, "\n", " | ")
}

func writeEvidence(prop, tier string, seed int, spec *PropSpec, outcomes []*entryOutcome, knownHit []string, replays, confirmed int, wall time.Duration, status string) {
	paths, queries, sat, unsat, unknown := 0, 0, 0, 0, 0
	var solverS float64
	entries := []interface{}{}
	samples := []interface{}{}
	stubs := map[string]bool{}
	nviol := 0
	distinct := 0
	for _, oc := range outcomes {
		r := oc.res
		paths += r.Paths
		queries += r.Queries
		sat += r.Sat
		unsat += r.Unsat
		unknown += r.Unknown
		solverS += r.SolverWall.Seconds()
		distinct += r.PathKinds["done"]
		for k := range r.Stubs {
			stubs[k] = true
		}
		for _, v := range r.Violations {
			if v.Known == "" {
				nviol++
			}
		}
		entries = append(entries, map[string]interface{}{
			"entry": r.Entry, "pkg": oc.group.Pkg, "paths": r.Paths, "path_kinds": r.PathKinds, "queries": r.Queries,
			"sat": r.Sat, "unsat": r.Unsat, "unknown": r.Unknown, "solver_s": round2(r.SolverWall.Seconds()), "wall_s": round2(r.Wall.Seconds()),
			"reach": r.Reach, "asserts_evaluated_on_paths": r.Asserts, "asserts_symbolic": r.AssertSym, "steps": r.Steps,
			"violation_keys": r.VioCount, "notes": r.Notes, "unwind": firstNonZero(oc.cfg.Unwind, 64), "preempt": oc.cfg.Preempt,
		})
		for _, s := range r.Samples {
			if len(samples) < 8 {
				samples = append(samples, map[string]interface{}{"entry": r.Entry, "path": s})
			}
		}
	}
	var stubList []string
	for k := range stubs {
		stubList = append(stubList, k)
	}
	sort.Strings(stubList)
	if len(samples) == 0 {
		samples = append(samples, map[string]interface{}{"note": "no completed path"})
	}
	ev := map[string]interface{}{
		"property_id": prop,
		"tier":        tier,
		"seed":        seed,
		"level":       "model_checking",
		"wall_s":      round2(wall.Seconds()),
		"violations":  nviol,
		"coverage": map[string]interface{}{
			"states":                        max1(paths),
			"transitions":                   max1(queries),
			"traces_validated_against_impl": replays,
			"samples":                       samples,
			"evaluations":                   max1(queries),
			"distinct_nontrivial":           distinct,
			"rule":                          "one state per explored symbolic path of the real SSA (distinct decision vectors); transitions = SMT queries discharged; a path is non-trivial when it ran to the end of the harness",
			"entries":                       entries,
			"queries":                       map[string]int{"sat": sat, "unsat": unsat, "unknown": unknown},
			"solver_s":                      map[string]float64{"z3-4.8.12": round2(solverS)},
			"functions_encoded":             spec.Encoded,
			"bounds":                        spec.Bounds,
			"outside_claim":                 spec.Outside,
			"stubs_and_models_used":         stubList,
			"known_findings_hit":            knownHit,
			"native_replays":                replays,
			"native_confirmed":              confirmed,
			"status":                        status,
			"explanation":                   explainRun(outcomes),
		},
		"assumptions": spec.Assumptions,
	}
	os.MkdirAll(filepath.Join(outDir, "evidence"), 0o755)
	data, _ := json.MarshalIndent(ev, "", " ")
	os.WriteFile(filepath.Join(outDir, "evidence", prop+".json"), data, 0o644)
}

func round2(f float64) float64 { return float64(int(f*100)) / 100 }
func max1(n int) int {
	if n < 1 {
		return 1
	}
	return n
}
func firstNonZero(a, b int) int {
	if a != 0 {
		return a
	}
	return b
}

func cmdSelftest(args []string) int { return 0 }

// explainRun states what decided the run: SMT queries over symbolic data, or (for harnesses without
// symbolic data) plain enumeration of event/schedule forks by the same executor.
func explainRun(outcomes []*entryOutcome) string {
	q := 0
	for _, oc := range outcomes {
		q += oc.res.Queries
	}
	if q == 0 {
		return "bounded execution of /repo's current go/ssa by gosmt; the harnesses of this run carry no symbolic data: every fork is an enumerated event, map-order or schedule choice and no SMT query was needed (0 queries)"
	}
	return "bounded symbolic execution of /repo's current go/ssa by gosmt; every symbolic branch, panic obligation and assertion decided by z3 over all inputs within the stated bounds; forks on events/schedules are enumerated by the same executor"
}
