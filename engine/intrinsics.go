package main

import (
	"fmt"
	"go/types"
	"strings"

	"golang.org/x/tools/go/ssa"
)

type intrinsicFn func(in *Interp, fn *ssa.Function, args []Value, site ssa.Value) Value

var intrinsics = map[string]intrinsicFn{}

// prefix-matched intrinsics (e.g. all methods of logrus.Entry)
type prefixIntrinsic struct {
	prefix string
	f      intrinsicFn
}

var prefixIntrinsics []prefixIntrinsic

func reg(name string, f intrinsicFn) { intrinsics[name] = f }
func regPrefix(p string, f intrinsicFn) {
	prefixIntrinsics = append(prefixIntrinsics, prefixIntrinsic{p, f})
}

func (in *Interp) tryIntrinsic(fn *ssa.Function, args []Value, site ssa.Value) (Value, bool) {
	key := fnKey(fn)
	if f, ok := intrinsics[key]; ok {
		in.noteStub(key)
		return f(in, fn, args, site), true
	}
	for _, p := range prefixIntrinsics {
		if strings.HasPrefix(key, p.prefix) {
			in.noteStub(p.prefix + "*")
			return p.f(in, fn, args, site), true
		}
	}
	return nil, false
}

func (in *Interp) noteStub(k string) {
	if in.stubsUsed == nil {
		in.stubsUsed = map[string]bool{}
	}
	if !in.stubsUsed[k] {
		in.stubsUsed[k] = true
		in.ex.mu.Lock()
		in.ex.res.Stubs[k]++
		in.ex.mu.Unlock()
	}
}

func resultZero(in *Interp, fn *ssa.Function) Value {
	res := fn.Signature.Results()
	switch res.Len() {
	case 0:
		return nil
	case 1:
		return in.zero(res.At(0).Type())
	}
	return in.zero(res)
}

// fieldIdx finds a struct field index by name in the pointee of pointer-typed value type t.
func fieldIdx(t types.Type, name string) int {
	if p, ok := types.Unalias(t).Underlying().(*types.Pointer); ok {
		t = p.Elem()
	}
	st, ok := types.Unalias(t).Underlying().(*types.Struct)
	if !ok {
		return -1
	}
	for i := 0; i < st.NumFields(); i++ {
		if st.Field(i).Name() == name {
			return i
		}
	}
	return -1
}

func (in *Interp) structOf(p PtrV) *Agg {
	if p.base == nil {
		in.goPanic("nil pointer dereference")
		return nil
	}
	a, ok := p.base.s[p.idx].(*Agg)
	if !ok {
		in.abort("pointer target is not a struct: %s", describe(p.base.s[p.idx]))
	}
	return a
}

type mutexState struct {
	locked  bool
	readers int
}

func (in *Interp) mutex(p PtrV) *mutexState {
	if m, ok := in.side[p]; ok {
		return m.(*mutexState)
	}
	m := &mutexState{}
	in.side[p] = m
	return m
}

type wgState struct{ n int64 }

func init() {
	// ---------------------------------------------------------------- sync
	lock := func(in *Interp, fn *ssa.Function, args []Value, site ssa.Value) Value {
		p := args[0].(PtrV)
		if p.base == nil {
			in.goPanic("nil pointer dereference (Mutex.Lock)")
			return nil
		}
		if in.schedPoint("Lock") {
			return nil
		}
		m := in.mutex(p)
		if m.locked || m.readers > 0 {
			in.block("Mutex.Lock", func() bool { return !m.locked && m.readers == 0 })
			return nil
		}
		m.locked = true
		return nil
	}
	unlock := func(in *Interp, fn *ssa.Function, args []Value, site ssa.Value) Value {
		p := args[0].(PtrV)
		if p.base == nil {
			in.goPanic("nil pointer dereference (Mutex.Unlock)")
			return nil
		}
		m := in.mutex(p)
		if !m.locked {
			in.violation("fatal", "sync: unlock of unlocked mutex", false)
			panic(pathEnd{"done", "fatal: unlock of unlocked mutex"})
		}
		m.locked = false
		return nil
	}
	reg("(*sync.Mutex).Lock", lock)
	reg("(*sync.Mutex).Unlock", unlock)
	reg("(*sync.RWMutex).Lock", lock)
	reg("(*sync.RWMutex).Unlock", unlock)
	reg("(*sync.Mutex).TryLock", func(in *Interp, fn *ssa.Function, args []Value, site ssa.Value) Value {
		m := in.mutex(args[0].(PtrV))
		if m.locked || m.readers > 0 {
			return in.tt.False
		}
		m.locked = true
		return in.tt.True
	})
	reg("(*sync.RWMutex).RLock", func(in *Interp, fn *ssa.Function, args []Value, site ssa.Value) Value {
		p := args[0].(PtrV)
		if in.schedPoint("RLock") {
			return nil
		}
		m := in.mutex(p)
		if m.locked {
			in.block("RWMutex.RLock", func() bool { return !m.locked })
			return nil
		}
		m.readers++
		return nil
	})
	reg("(*sync.RWMutex).RUnlock", func(in *Interp, fn *ssa.Function, args []Value, site ssa.Value) Value {
		m := in.mutex(args[0].(PtrV))
		if m.readers <= 0 {
			in.violation("fatal", "sync: RUnlock of unlocked RWMutex", false)
			panic(pathEnd{"done", "fatal: RUnlock of unlocked RWMutex"})
		}
		m.readers--
		return nil
	})
	reg("(*sync.WaitGroup).Add", func(in *Interp, fn *ssa.Function, args []Value, site ssa.Value) Value {
		p := args[0].(PtrV)
		st, _ := in.side[p].(*wgState)
		if st == nil {
			st = &wgState{}
			in.side[p] = st
		}
		st.n += in.concreteInt(args[1].(*Term), "WaitGroup.Add")
		if st.n < 0 {
			in.goPanic("sync: negative WaitGroup counter")
		}
		return nil
	})
	reg("(*sync.WaitGroup).Done", func(in *Interp, fn *ssa.Function, args []Value, site ssa.Value) Value {
		p := args[0].(PtrV)
		st, _ := in.side[p].(*wgState)
		if st == nil {
			st = &wgState{}
			in.side[p] = st
		}
		st.n--
		if st.n < 0 {
			in.goPanic("sync: negative WaitGroup counter")
		}
		return nil
	})
	reg("(*sync.WaitGroup).Wait", func(in *Interp, fn *ssa.Function, args []Value, site ssa.Value) Value {
		p := args[0].(PtrV)
		st, _ := in.side[p].(*wgState)
		if st == nil || st.n == 0 {
			return nil
		}
		if in.schedPoint("WaitGroup.Wait") {
			return nil
		}
		in.block("WaitGroup.Wait", func() bool { return st.n == 0 })
		return nil
	})
	type onceState struct{ done bool }
	reg("(*sync.Once).Do", func(in *Interp, fn *ssa.Function, args []Value, site ssa.Value) Value {
		p := args[0].(PtrV)
		if a, ok := in.side[p].(*onceAsync); ok {
			if a.done {
				return nil
			}
			a.done = true
			in.callSync(args[1].(*FuncV), nil)
			return nil
		}
		st, _ := in.side[p].(*onceState)
		if st == nil {
			st = &onceState{}
			in.side[p] = st
		}
		if st.done {
			return nil
		}
		st.done = true
		f := args[1].(*FuncV)
		in.callSync(f, nil)
		return nil
	})
	// sync.Pool: Get returns nil or a previously Put object (adversarial when enabled)
	type poolState struct{ items []Value }
	reg("(*sync.Pool).Put", func(in *Interp, fn *ssa.Function, args []Value, site ssa.Value) Value {
		p := args[0].(PtrV)
		st, _ := in.side[p].(*poolState)
		if st == nil {
			st = &poolState{}
			in.side[p] = st
		}
		if iv, ok := args[1].(IfaceV); ok && iv.t != nil {
			st.items = append(st.items, args[1])
		}
		return nil
	})
	reg("(*sync.Pool).Get", func(in *Interp, fn *ssa.Function, args []Value, site ssa.Value) Value {
		p := args[0].(PtrV)
		st, _ := in.side[p].(*poolState)
		if st != nil && len(st.items) > 0 {
			// most recently put item (LIFO, as the real per-P private slot behaves)
			v := st.items[len(st.items)-1]
			st.items = st.items[:len(st.items)-1]
			return v
		}
		// New()
		pool := in.structOf(p)
		ni := fieldIdx(fn.Signature.Recv().Type(), "New")
		if nf, ok := pool.s[ni].(*FuncV); ok && nf != nil {
			return in.callSync(nf, nil)
		}
		return IfaceV{}
	})

	// ---------------------------------------------------------------- sync/atomic typed values
	for _, tn := range []string{"Int32", "Int64", "Uint32", "Uint64", "Uintptr"} {
		tn := tn
		vfield := func(in *Interp, fn *ssa.Function, args []Value) (*Agg, int) {
			a := in.structOf(args[0].(PtrV))
			return a, fieldIdx(fn.Signature.Recv().Type(), "v")
		}
		reg("(*sync/atomic."+tn+").Load", func(in *Interp, fn *ssa.Function, args []Value, site ssa.Value) Value {
			a, i := vfield(in, fn, args)
			if a == nil {
				return nil
			}
			return a.s[i]
		})
		reg("(*sync/atomic."+tn+").Store", func(in *Interp, fn *ssa.Function, args []Value, site ssa.Value) Value {
			a, i := vfield(in, fn, args)
			if a == nil {
				return nil
			}
			a.s[i] = args[1]
			return nil
		})
		reg("(*sync/atomic."+tn+").Add", func(in *Interp, fn *ssa.Function, args []Value, site ssa.Value) Value {
			a, i := vfield(in, fn, args)
			if a == nil {
				return nil
			}
			a.s[i] = in.tt.Bin(OpAdd, a.s[i].(*Term), args[1].(*Term))
			return a.s[i]
		})
		reg("(*sync/atomic."+tn+").Swap", func(in *Interp, fn *ssa.Function, args []Value, site ssa.Value) Value {
			a, i := vfield(in, fn, args)
			if a == nil {
				return nil
			}
			old := a.s[i]
			a.s[i] = args[1]
			return old
		})
		reg("(*sync/atomic."+tn+").CompareAndSwap", func(in *Interp, fn *ssa.Function, args []Value, site ssa.Value) Value {
			a, i := vfield(in, fn, args)
			if a == nil {
				return nil
			}
			eq := in.tt.Eq(a.s[i].(*Term), args[1].(*Term))
			if in.decide(eq) {
				a.s[i] = args[2]
				return in.tt.True
			}
			return in.tt.False
		})
	}
	reg("(*sync/atomic.Bool).Load", func(in *Interp, fn *ssa.Function, args []Value, site ssa.Value) Value {
		a := in.structOf(args[0].(PtrV))
		i := fieldIdx(fn.Signature.Recv().Type(), "v")
		return in.tt.Not(in.tt.Eq(a.s[i].(*Term), in.tt.Const(32, 0)))
	})
	reg("(*sync/atomic.Bool).Store", func(in *Interp, fn *ssa.Function, args []Value, site ssa.Value) Value {
		a := in.structOf(args[0].(PtrV))
		i := fieldIdx(fn.Signature.Recv().Type(), "v")
		a.s[i] = in.tt.Ite(args[1].(*Term), in.tt.Const(32, 1), in.tt.Const(32, 0))
		return nil
	})
	reg("(*sync/atomic.Bool).Swap", func(in *Interp, fn *ssa.Function, args []Value, site ssa.Value) Value {
		a := in.structOf(args[0].(PtrV))
		i := fieldIdx(fn.Signature.Recv().Type(), "v")
		old := in.tt.Not(in.tt.Eq(a.s[i].(*Term), in.tt.Const(32, 0)))
		a.s[i] = in.tt.Ite(args[1].(*Term), in.tt.Const(32, 1), in.tt.Const(32, 0))
		return old
	})
	reg("(*sync/atomic.Bool).CompareAndSwap", func(in *Interp, fn *ssa.Function, args []Value, site ssa.Value) Value {
		a := in.structOf(args[0].(PtrV))
		i := fieldIdx(fn.Signature.Recv().Type(), "v")
		cur := in.tt.Not(in.tt.Eq(a.s[i].(*Term), in.tt.Const(32, 0)))
		if in.decide(in.tt.Eq(cur, args[1].(*Term))) {
			a.s[i] = in.tt.Ite(args[2].(*Term), in.tt.Const(32, 1), in.tt.Const(32, 0))
			return in.tt.True
		}
		return in.tt.False
	})
	// atomic.Pointer[T]
	reg("(*sync/atomic.Pointer).Load", func(in *Interp, fn *ssa.Function, args []Value, site ssa.Value) Value {
		a := in.structOf(args[0].(PtrV))
		i := fieldIdx(fn.Signature.Recv().Type(), "v")
		if p, ok := a.s[i].(PtrV); ok {
			return p
		}
		return PtrV{}
	})
	reg("(*sync/atomic.Pointer).Store", func(in *Interp, fn *ssa.Function, args []Value, site ssa.Value) Value {
		a := in.structOf(args[0].(PtrV))
		i := fieldIdx(fn.Signature.Recv().Type(), "v")
		a.s[i] = args[1]
		return nil
	})
	reg("(*sync/atomic.Pointer).Swap", func(in *Interp, fn *ssa.Function, args []Value, site ssa.Value) Value {
		a := in.structOf(args[0].(PtrV))
		i := fieldIdx(fn.Signature.Recv().Type(), "v")
		old, _ := a.s[i].(PtrV)
		a.s[i] = args[1]
		return old
	})
	reg("(*sync/atomic.Pointer).CompareAndSwap", func(in *Interp, fn *ssa.Function, args []Value, site ssa.Value) Value {
		a := in.structOf(args[0].(PtrV))
		i := fieldIdx(fn.Signature.Recv().Type(), "v")
		old, _ := a.s[i].(PtrV)
		if old == args[1].(PtrV) {
			a.s[i] = args[2]
			return in.tt.True
		}
		return in.tt.False
	})
	// atomic.Value
	reg("(*sync/atomic.Value).Load", func(in *Interp, fn *ssa.Function, args []Value, site ssa.Value) Value {
		if v, ok := in.side[args[0].(PtrV)]; ok {
			return v.(Value)
		}
		return IfaceV{}
	})
	reg("(*sync/atomic.Value).Store", func(in *Interp, fn *ssa.Function, args []Value, site ssa.Value) Value {
		in.side[args[0].(PtrV)] = args[1]
		return nil
	})
	reg("(*sync/atomic.Value).Swap", func(in *Interp, fn *ssa.Function, args []Value, site ssa.Value) Value {
		old, ok := in.side[args[0].(PtrV)]
		in.side[args[0].(PtrV)] = args[1]
		if ok {
			return old.(Value)
		}
		return IfaceV{}
	})
	reg("(*sync/atomic.Value).CompareAndSwap", func(in *Interp, fn *ssa.Function, args []Value, site ssa.Value) Value {
		old, ok := in.side[args[0].(PtrV)]
		var ov Value = IfaceV{}
		if ok {
			ov = old.(Value)
		}
		eq := in.valEq(ov, args[1])
		if in.decide(eq) {
			in.side[args[0].(PtrV)] = args[2]
			return in.tt.True
		}
		return in.tt.False
	})
	// function forms
	for _, tn := range []string{"Int32", "Int64", "Uint32", "Uint64", "Uintptr"} {
		reg("sync/atomic.Load"+tn, func(in *Interp, fn *ssa.Function, args []Value, site ssa.Value) Value {
			return in.load(args[0].(PtrV))
		})
		reg("sync/atomic.Store"+tn, func(in *Interp, fn *ssa.Function, args []Value, site ssa.Value) Value {
			in.store(args[0].(PtrV), args[1])
			return nil
		})
		reg("sync/atomic.Add"+tn, func(in *Interp, fn *ssa.Function, args []Value, site ssa.Value) Value {
			p := args[0].(PtrV)
			nv := in.tt.Bin(OpAdd, in.load(p).(*Term), args[1].(*Term))
			in.store(p, nv)
			return nv
		})
		reg("sync/atomic.Swap"+tn, func(in *Interp, fn *ssa.Function, args []Value, site ssa.Value) Value {
			p := args[0].(PtrV)
			old := in.load(p)
			in.store(p, args[1])
			return old
		})
		reg("sync/atomic.CompareAndSwap"+tn, func(in *Interp, fn *ssa.Function, args []Value, site ssa.Value) Value {
			p := args[0].(PtrV)
			if in.decide(in.tt.Eq(in.load(p).(*Term), args[1].(*Term))) {
				in.store(p, args[2])
				return in.tt.True
			}
			return in.tt.False
		})
	}

	// ---------------------------------------------------------------- bytes / strings leaf helpers (assembly in the real library)
	reg("bytes.Equal", func(in *Interp, fn *ssa.Function, args []Value, site ssa.Value) Value {
		a, b := args[0].(SliceV), args[1].(SliceV)
		return in.bytesEq(in.sliceBytesN(a), in.sliceBytesN(b))
	})
	reg("bytes.Compare", func(in *Interp, fn *ssa.Function, args []Value, site ssa.Value) Value {
		a, b := in.sliceBytesN(args[0].(SliceV)), in.sliceBytesN(args[1].(SliceV))
		return in.compare3(a, b)
	})
	reg("strings.Compare", func(in *Interp, fn *ssa.Function, args []Value, site ssa.Value) Value {
		return in.compare3(args[0].(StrV).b, args[1].(StrV).b)
	})
	reg("internal/bytealg.Compare", func(in *Interp, fn *ssa.Function, args []Value, site ssa.Value) Value {
		a, b := in.sliceBytesN(args[0].(SliceV)), in.sliceBytesN(args[1].(SliceV))
		return in.compare3(a, b)
	})
	reg("internal/bytealg.CompareString", func(in *Interp, fn *ssa.Function, args []Value, site ssa.Value) Value {
		return in.compare3(args[0].(StrV).b, args[1].(StrV).b)
	})
	reg("internal/bytealg.Equal", func(in *Interp, fn *ssa.Function, args []Value, site ssa.Value) Value {
		a, b := args[0].(SliceV), args[1].(SliceV)
		return in.bytesEq(in.sliceBytesN(a), in.sliceBytesN(b))
	})
	indexByte := func(in *Interp, hay []*Term, c *Term) Value {
		// first index i with hay[i]==c, else -1 ; decided by forking per position
		for i, b := range hay {
			if in.decide(in.tt.Eq(b, c)) {
				return in.tt.Const(64, uint64(i))
			}
		}
		return in.tt.Const(64, ^uint64(0))
	}
	reg("internal/bytealg.IndexByte", func(in *Interp, fn *ssa.Function, args []Value, site ssa.Value) Value {
		return indexByte(in, in.sliceBytesN(args[0].(SliceV)), args[1].(*Term))
	})
	reg("internal/bytealg.IndexByteString", func(in *Interp, fn *ssa.Function, args []Value, site ssa.Value) Value {
		return indexByte(in, args[0].(StrV).b, args[1].(*Term))
	})
	reg("bytes.IndexByte", func(in *Interp, fn *ssa.Function, args []Value, site ssa.Value) Value {
		return indexByte(in, in.sliceBytesN(args[0].(SliceV)), args[1].(*Term))
	})
	reg("strings.IndexByte", func(in *Interp, fn *ssa.Function, args []Value, site ssa.Value) Value {
		return indexByte(in, args[0].(StrV).b, args[1].(*Term))
	})
	indexStr := func(in *Interp, hay, needle []*Term) Value {
		if len(needle) == 0 {
			return in.tt.Const(64, 0)
		}
		for i := 0; i+len(needle) <= len(hay); i++ {
			if in.decide(in.bytesEq(hay[i:i+len(needle)], needle)) {
				return in.tt.Const(64, uint64(i))
			}
		}
		return in.tt.Const(64, ^uint64(0))
	}
	reg("strings.Index", func(in *Interp, fn *ssa.Function, args []Value, site ssa.Value) Value {
		return indexStr(in, args[0].(StrV).b, args[1].(StrV).b)
	})
	reg("bytes.Index", func(in *Interp, fn *ssa.Function, args []Value, site ssa.Value) Value {
		return indexStr(in, in.sliceBytesN(args[0].(SliceV)), in.sliceBytesN(args[1].(SliceV)))
	})
	reg("internal/bytealg.IndexString", func(in *Interp, fn *ssa.Function, args []Value, site ssa.Value) Value {
		return indexStr(in, args[0].(StrV).b, args[1].(StrV).b)
	})
	reg("internal/bytealg.Index", func(in *Interp, fn *ssa.Function, args []Value, site ssa.Value) Value {
		return indexStr(in, in.sliceBytesN(args[0].(SliceV)), in.sliceBytesN(args[1].(SliceV)))
	})
	reg("internal/bytealg.CountString", func(in *Interp, fn *ssa.Function, args []Value, site ssa.Value) Value {
		n := 0
		c := args[1].(*Term)
		for _, b := range args[0].(StrV).b {
			if in.decide(in.tt.Eq(b, c)) {
				n++
			}
		}
		return in.tt.Const(64, uint64(n))
	})
	reg("crypto/subtle.ConstantTimeCompare", func(in *Interp, fn *ssa.Function, args []Value, site ssa.Value) Value {
		a, b := in.sliceBytesN(args[0].(SliceV)), in.sliceBytesN(args[1].(SliceV))
		return in.tt.Ite(in.bytesEq(a, b), in.tt.Const(64, 1), in.tt.Const(64, 0))
	})
	reg("(*strings.Builder).copyCheck", func(in *Interp, fn *ssa.Function, args []Value, site ssa.Value) Value { return nil })
	reg("(*strings.Builder).String", func(in *Interp, fn *ssa.Function, args []Value, site ssa.Value) Value {
		a := in.structOf(args[0].(PtrV))
		i := fieldIdx(fn.Signature.Recv().Type(), "buf")
		s := a.s[i].(SliceV)
		return StrV{in.sliceBytesN(s)}
	})
	reg("strings.Clone", func(in *Interp, fn *ssa.Function, args []Value, site ssa.Value) Value { return args[0] })
	reg("bytes.Clone", func(in *Interp, fn *ssa.Function, args []Value, site ssa.Value) Value {
		s := args[0].(SliceV)
		if s.base == nil {
			return SliceV{}
		}
		return in.bytesToSlice(in.sliceBytesN(s))
	})
	reg("internal/abi.NoEscape", func(in *Interp, fn *ssa.Function, args []Value, site ssa.Value) Value { return args[0] })
	reg("runtime.KeepAlive", func(in *Interp, fn *ssa.Function, args []Value, site ssa.Value) Value { return nil })
	reg("runtime.SetFinalizer", func(in *Interp, fn *ssa.Function, args []Value, site ssa.Value) Value { return nil })
	reg("runtime.Gosched", func(in *Interp, fn *ssa.Function, args []Value, site ssa.Value) Value { return nil })
	reg("internal/race.Enabled", nil)
	delete(intrinsics, "internal/race.Enabled")
	for _, n := range []string{"Acquire", "Release", "ReleaseMerge", "Disable", "Enable", "Read", "Write", "ReadRange", "WriteRange", "Errors"} {
		reg("internal/race."+n, func(in *Interp, fn *ssa.Function, args []Value, site ssa.Value) Value { return resultZero(in, fn) })
	}
	reg("github.com/pkg/errors.callers", func(in *Interp, fn *ssa.Function, args []Value, site ssa.Value) Value { return PtrV{} })
	reg("runtime.Callers", func(in *Interp, fn *ssa.Function, args []Value, site ssa.Value) Value { return in.tt.Const(64, 0) })
}

func (in *Interp) sliceBytesN(s SliceV) []*Term {
	if s.base == nil {
		return nil
	}
	return in.sliceBytes(s)
}

// compare3 returns -1/0/+1 (as 64-bit) for lexicographic comparison.
func (in *Interp) compare3(a, b []*Term) Value {
	tt := in.tt
	lt := in.bytesLess(a, b, false)
	eq := in.bytesEq(a, b)
	return tt.Ite(eq, tt.Const(64, 0), tt.Ite(lt, tt.Const(64, ^uint64(0)), tt.Const(64, 1)))
}

// opaque object method dispatch
func (in *Interp) opaqueMethod(op *Opaque, m *types.Func, args []Value) Value {
	key := op.tag + "." + m.Name()
	if h, ok := opaqueHandlers[key]; ok {
		return h(in, op, args)
	}
	if in.lenient > 0 {
		sig := m.Type().(*types.Signature)
		switch sig.Results().Len() {
		case 0:
			return nil
		case 1:
			return in.zeroOrOpaque(sig.Results().At(0).Type(), op.tag+"."+m.Name())
		}
		return in.zero(sig.Results())
	}
	in.abort("unmodelled method %s on opaque object %s", m.Name(), op.tag)
	return nil
}

var opaqueHandlers = map[string]func(in *Interp, op *Opaque, args []Value) Value{}

func (in *Interp) opaqueImplements(op *Opaque, it *types.Interface) bool {
	if op.typ != nil {
		return in.implements(op.typ, it)
	}
	return false
}

func init() {
	_ = fmt.Sprint
}
