package main

import (
	"strconv"

	"github.com/mr-tron/base58"
	"github.com/zeebo/blake3"
)

func nativeB58Enc(b []byte) string           { return base58.Encode(b) }
func nativeB58Dec(s string) ([]byte, error)  { return base58.Decode(s) }
func nativeBlake3Sum256(b []byte) [32]byte   { return blake3.Sum256(b) }
func nativeBlake3Derive(ctx string, material []byte, out []byte) { blake3.DeriveKey(ctx, material, out) }

func fmtInt(v int64) string              { return strconv.FormatInt(v, 10) }
func strconvFormat(v int64, b int) string { return strconv.FormatInt(v, b) }
func strconvFormatU(v uint64, b int) string { return strconv.FormatUint(v, b) }
