package zz_verifrt

// Go-source models of library code that is cut at the function boundary (DESIGN.md §3.2/3.3).
// Under the gosmt engine a call to the function named in a "gosmt:model" comment is redirected
// to the model below (calls made from this package are not redirected). Natively these
// functions are never called.

import (
	"crypto/cipher"
	"crypto/ecdh"
	"crypto/ed25519"
	"crypto/sha1"
	"crypto/sha256"
	"hash"
	"io"
	"sync"

	"filippo.io/edwards25519"
	"filippo.io/edwards25519/field"
	b58 "github.com/mr-tron/base58/base58"
	"github.com/zeebo/blake3"
)

// ---- modelling primitives (engine intrinsics; native fallbacks only keep the package compiling)

// UF applies the uninterpreted function family fam to byte-string arguments and returns outLen bytes.
// Families named "inj/..." are injective (collision-free) across all applications on a path.
func UF(fam string, outLen int, args ...[]byte) []byte { panic("zz_verifrt.UF: engine only") }

// UFBool is an uninterpreted predicate.
func UFBool(fam string, args ...[]byte) bool { panic("zz_verifrt.UFBool: engine only") }

// Axiom adds a constraint relating uninterpreted results (used by models only).
func Axiom(cond bool) {}

// Non-branching boolean connectives (native: ordinary evaluation).
func Implies(a, b bool) bool { return !a || b }
func And(a, b bool) bool     { return a && b }
func Or(a, b bool) bool      { return a || b }
func Not(a bool) bool        { return !a }
func Iff(a, b bool) bool     { return a == b }
func BytesEq(a, b []byte) bool {
	if len(a) != len(b) {
		return false
	}
	for i := range a {
		if a[i] != b[i] {
			return false
		}
	}
	return true
}
func StrEq(a, b string) bool { return a == b }

// BytesLess is lexicographic a < b; SelectBytes is c ? a : b (both non-branching under the engine).
func BytesLess(a, b []byte) bool { return string(a) < string(b) }
func SelectBytes(c bool, a, b []byte) []byte {
	if c {
		return a
	}
	return b
}
func Ite8(c bool, a, b byte) byte {
	if c {
		return a
	}
	return b
}
func IteInt(c bool, a, b int) int {
	if c {
		return a
	}
	return b
}

// Reference digests for harness oracles: the same primitive the code under test calls
// (a UF under the engine, the real function natively).
func RefSHA256(b []byte) []byte { h := sha256.Sum256(b); return h[:] }
func RefSHA1(b []byte) []byte   { h := sha1.Sum(b); return h[:] }
func RefBLAKE3(b []byte) []byte { h := blake3.Sum256(b); return h[:] }

// IsConcrete reports whether all bytes are concrete (native: always true).
func IsConcrete(b []byte) bool { return true }

// Symbolic reports whether the harness runs under the engine.
func Symbolic() bool { return false }

var sideTab sync.Map

func SideGet(key any) any {
	v, _ := sideTab.Load(key)
	return v
}
func SideSet(key any, v any) { sideTab.Store(key, v) }

// Ideal signature scheme (EUF-CMA, deterministic): engine intrinsics.
func SigPub(seed []byte) []byte { return ed25519.NewKeyFromSeed(seed)[32:] }
func SigSign(seed, msg []byte) []byte {
	return ed25519.Sign(ed25519.NewKeyFromSeed(seed), msg)
}
func SigVerify(pk, msg, sig []byte) bool { return ed25519.Verify(pk, msg, sig) }

// ---- base58: inverse pair, injective encoder, idealised fixed text length for symbolic data

func b58EncLen(n int) int { return n*138/100 + 1 }

type b58rec struct{ raw, txt []byte }

// b58Alphabet: base-58 text consists of alphanumeric characters only ('1'..'z'): in particular no
// white space and no '-'.
func b58Alphabet(txt []byte) {
	ok := true
	for _, c := range txt {
		ok = And(ok, And(c >= '1', c <= 'z'))
	}
	Axiom(ok)
}

var b58encs, b58decs []b58rec
var b58decOK []bool

//gosmt:model github.com/mr-tron/base58/base58.Encode
func Model_b58_Encode(b []byte) string {
	if IsConcrete(b) {
		return b58.Encode(b)
	}
	txt := UF("inj/b58enc", b58EncLen(len(b)), b)
	b58Alphabet(txt)
	for i, d := range b58decs {
		if len(d.txt) == len(txt) && len(d.raw) == len(b) {
			// decoding this very text yields b
			Axiom(Implies(BytesEq(d.txt, txt), And(b58decOK[i], BytesEq(d.raw, b))))
		} else if len(d.txt) == len(txt) {
			Axiom(Not(And(BytesEq(d.txt, txt), b58decOK[i])))
		}
	}
	b58encs = append(b58encs, b58rec{raw: b, txt: txt})
	return string(txt)
}

//gosmt:model github.com/mr-tron/base58/base58.Decode
func Model_b58_Decode(s string) ([]byte, error) {
	t := []byte(s)
	if IsConcrete(t) {
		return b58.Decode(s)
	}
	// the idealised encoder maps n bytes to b58EncLen(n) characters: find n
	n := -1
	for k := 0; k <= len(t); k++ {
		if b58EncLen(k) == len(t) {
			n = k
		}
	}
	if n < 0 {
		return nil, errModel("base58: no input of this length")
	}
	ok := UFBool("b58decok", t)
	raw := UF("b58dec", n, t)
	for _, e := range b58encs {
		if len(e.txt) == len(t) {
			Axiom(Implies(BytesEq(e.txt, t), And(ok, BytesEq(e.raw, raw))))
		}
	}
	b58decs = append(b58decs, b58rec{raw: raw, txt: t})
	b58decOK = append(b58decOK, ok)
	if !ok {
		return nil, errModel("base58: invalid character")
	}
	// an accepted text is the encoding of its decoding
	enc := UF("inj/b58enc", len(t), raw)
	Axiom(BytesEq(enc, t))
	b58Alphabet(t)
	b58encs = append(b58encs, b58rec{raw: raw, txt: t})
	return raw, nil
}

type modelError struct{ s string }

func (e *modelError) Error() string { return e.s }
func errModel(s string) error       { return &modelError{s} }

// ---- crypto/ed25519

//gosmt:model crypto/ed25519.NewKeyFromSeed
func Model_ed25519_NewKeyFromSeed(seed []byte) ed25519.PrivateKey {
	if len(seed) != 32 {
		panic("ed25519: bad seed length")
	}
	k := make([]byte, 64)
	copy(k, seed)
	copy(k[32:], modelEdPub(seed))
	return k
}

//gosmt:model crypto/ed25519.GenerateKey
func Model_ed25519_GenerateKey(r io.Reader) (ed25519.PublicKey, ed25519.PrivateKey, error) {
	seed := Bytes("env:ed25519.GenerateKey", 32, 32)
	k := Model_ed25519_NewKeyFromSeed(seed)
	return ed25519.PublicKey(k[32:]), k, nil
}

//gosmt:model crypto/ed25519.Sign
func Model_ed25519_Sign(priv ed25519.PrivateKey, msg []byte) []byte {
	if len(priv) != 64 {
		panic("ed25519: bad private key length")
	}
	return SigSign(priv[:32], msg)
}

//gosmt:model crypto/ed25519.Verify
func Model_ed25519_Verify(pub ed25519.PublicKey, msg, sig []byte) bool {
	if len(pub) != 32 {
		panic("ed25519: bad public key length")
	}
	if len(sig) != 64 {
		return false
	}
	return SigVerify(pub, msg, sig)
}

// ---- hashes

// ModelHasher is a streaming hasher that appends writes to a buffer, so concatenation
// ambiguity of multi-part inputs stays visible to the solver.
type ModelHasher struct {
	fam  string
	ctx  []byte
	size int
	buf  []byte
}

func (h *ModelHasher) Write(p []byte) (int, error) {
	h.buf = append(h.buf, p...)
	return len(p), nil
}
func (h *ModelHasher) WriteString(s string) (int, error) {
	h.buf = append(h.buf, s...)
	return len(s), nil
}
func (h *ModelHasher) sum(n int) []byte {
	if h.ctx != nil {
		return UF(h.fam, n, h.ctx, h.buf)
	}
	return UF(h.fam, n, h.buf)
}
func (h *ModelHasher) Sum(b []byte) []byte { return append(b, h.sum(h.size)...) }
func (h *ModelHasher) Reset()              { h.buf = nil }
func (h *ModelHasher) Size() int           { return h.size }
func (h *ModelHasher) BlockSize() int      { return 64 }

var _ hash.Hash = (*ModelHasher)(nil)

//gosmt:model crypto/sha256.Sum256
func Model_sha256_Sum256(data []byte) (out [32]byte) {
	copy(out[:], UF("inj/sha256", 32, data))
	return
}

//gosmt:model crypto/sha1.Sum
func Model_sha1_Sum(data []byte) (out [20]byte) {
	copy(out[:], UF("inj/sha1", 20, data))
	return
}

//gosmt:model crypto/sha256.New
func Model_sha256_New() hash.Hash { return &ModelHasher{fam: "inj/sha256", size: 32} }

//gosmt:model crypto/sha1.New
func Model_sha1_New() hash.Hash { return &ModelHasher{fam: "inj/sha1", size: 20} }

//gosmt:model github.com/zeebo/blake3.Sum256
func Model_blake3_Sum256(data []byte) (out [32]byte) {
	copy(out[:], UF("inj/blake3", 32, data))
	return
}

func blake3Model(h *blake3.Hasher) *ModelHasher {
	if v := SideGet(h); v != nil {
		return v.(*ModelHasher)
	}
	m := &ModelHasher{fam: "inj/blake3", size: 32}
	SideSet(h, m)
	return m
}

//gosmt:model github.com/zeebo/blake3.New
func Model_blake3_New() *blake3.Hasher {
	h := new(blake3.Hasher)
	SideSet(h, &ModelHasher{fam: "inj/blake3", size: 32})
	return h
}

//gosmt:model github.com/zeebo/blake3.NewDeriveKey
func Model_blake3_NewDeriveKey(context string) *blake3.Hasher {
	h := new(blake3.Hasher)
	SideSet(h, &ModelHasher{fam: "inj/blake3.derive", ctx: append([]byte{}, context...), size: 32})
	return h
}

//gosmt:model github.com/zeebo/blake3.DeriveKey
func Model_blake3_DeriveKey(context string, material []byte, out []byte) {
	copy(out, UF("inj/blake3.derive", len(out), []byte(context), material))
}

//gosmt:model (*github.com/zeebo/blake3.Hasher).Write
func Model_blake3_Hasher_Write(h *blake3.Hasher, p []byte) (int, error) {
	return blake3Model(h).Write(p)
}

//gosmt:model (*github.com/zeebo/blake3.Hasher).WriteString
func Model_blake3_Hasher_WriteString(h *blake3.Hasher, s string) (int, error) {
	return blake3Model(h).WriteString(s)
}

//gosmt:model (*github.com/zeebo/blake3.Hasher).Sum
func Model_blake3_Hasher_Sum(h *blake3.Hasher, b []byte) []byte { return blake3Model(h).Sum(b) }

//gosmt:model (*github.com/zeebo/blake3.Hasher).Reset
func Model_blake3_Hasher_Reset(h *blake3.Hasher) { blake3Model(h).Reset() }

//gosmt:model (*github.com/zeebo/blake3.Hasher).Size
func Model_blake3_Hasher_Size(h *blake3.Hasher) int { return 32 }

//gosmt:model (*github.com/zeebo/blake3.Hasher).Digest
func Model_blake3_Hasher_Digest(h *blake3.Hasher) *blake3.Digest {
	d := new(blake3.Digest)
	m := blake3Model(h)
	SideSet(d, &ModelHasher{fam: m.fam, ctx: m.ctx, size: m.size, buf: append([]byte{}, m.buf...)})
	return d
}

//gosmt:model (*github.com/zeebo/blake3.Digest).Read
func Model_blake3_Digest_Read(d *blake3.Digest, p []byte) (int, error) {
	m := SideGet(d).(*ModelHasher)
	// extendable output: the first len(p) bytes of the stream (one read per digest is modelled;
	// outputs of different lengths are unrelated, which over-approximates XOF prefixes)
	copy(p, m.sum(len(p)))
	return len(p), nil
}

// ---- crypto/rand

//gosmt:model crypto/rand.Read
func Model_rand_Read(b []byte) (int, error) {
	copy(b, Bytes("env:rand", len(b), len(b)))
	return len(b), nil
}

//gosmt:model (*crypto/rand.reader).Read
func Model_rand_reader_Read(r any, b []byte) (int, error) {
	copy(b, Bytes("env:rand", len(b), len(b)))
	return len(b), nil
}

// ---- generic inverse pair (codec): enc injective, dec(enc(x)) = x, accepted text re-encodes to itself

type invRec struct{ raw, txt []byte }

type invPair struct {
	name   string
	encLen func(n int) int
	encs   []invRec
	decs   []invRec
	decOK  []bool
}

func (p *invPair) enc(raw []byte) []byte {
	txt := UF("inj/"+p.name+".enc", p.encLen(len(raw)), raw)
	for i, d := range p.decs {
		if len(d.txt) == len(txt) {
			Axiom(Implies(BytesEq(d.txt, txt), And(p.decOK[i], BytesEq(d.raw, raw))))
		}
	}
	p.encs = append(p.encs, invRec{raw: raw, txt: txt})
	return txt
}

func (p *invPair) dec(txt []byte) ([]byte, bool) {
	n := -1
	for k := 0; k <= len(txt); k++ {
		if p.encLen(k) == len(txt) {
			n = k
		}
	}
	if n < 0 {
		return nil, false
	}
	ok := UFBool(p.name+".decok", txt)
	raw := UF(p.name+".dec", n, txt)
	for _, e := range p.encs {
		if len(e.txt) == len(txt) {
			Axiom(Implies(BytesEq(e.txt, txt), And(ok, BytesEq(e.raw, raw))))
		}
	}
	p.decs = append(p.decs, invRec{raw: raw, txt: txt})
	p.decOK = append(p.decOK, ok)
	if !ok {
		return nil, false
	}
	enc := UF("inj/"+p.name+".enc", len(txt), raw)
	Axiom(BytesEq(enc, txt))
	p.encs = append(p.encs, invRec{raw: raw, txt: txt})
	return raw, true
}

// ---- S2 compression (klauspost): inverse pair, idealised output length n+2

var s2pair = &invPair{name: "s2", encLen: func(n int) int { return n + 2 }}

//gosmt:model github.com/klauspost/compress/s2.EncodeBetter
func Model_s2_EncodeBetter(dst, src []byte) []byte { return s2pair.enc(src) }

//gosmt:model github.com/klauspost/compress/s2.Encode
func Model_s2_Encode(dst, src []byte) []byte { return s2pair.enc(src) }

//gosmt:model github.com/klauspost/compress/s2.Decode
func Model_s2_Decode(dst, src []byte) ([]byte, error) {
	raw, ok := s2pair.dec(src)
	if !ok {
		return nil, errModel("s2: corrupt input")
	}
	if len(raw) <= cap(dst) {
		// the real decoder reuses dst when it is large enough
		dst = dst[:len(raw)]
		copy(dst, raw)
		return dst, nil
	}
	return raw, nil
}

// ---- SHA-512

//gosmt:model crypto/sha512.New
func Model_sha512_New() hash.Hash { return &ModelHasher{fam: "inj/sha512", size: 64} }

//gosmt:model crypto/sha512.Sum512
func Model_sha512_Sum512(data []byte) (out [64]byte) {
	copy(out[:], UF("inj/sha512", 64, data))
	return
}

// ---- AES block cipher: a permutation per key (only one 16-byte block per call, as the real Block)

// AES is idealised as a family of permutations, injective in (key, block) jointly: E_k(x) = E_k'(x')
// implies k = k' and x = x' (no cross-key collisions), and D_k(y) = x exactly when E_k(x) = y.

type ModelAES struct{ key []byte }

func (c *ModelAES) BlockSize() int { return 16 }
func (c *ModelAES) Encrypt(dst, src []byte) {
	if len(src) < 16 {
		panic("crypto/aes: input not full block")
	}
	if len(dst) < 16 {
		panic("crypto/aes: output not full block")
	}
	in := append([]byte{}, src[:16]...)
	copy(dst, UF("inj/aes.enc", 16, c.key, in))
}
func (c *ModelAES) Decrypt(dst, src []byte) {
	if len(src) < 16 {
		panic("crypto/aes: input not full block")
	}
	if len(dst) < 16 {
		panic("crypto/aes: output not full block")
	}
	in := append([]byte{}, src[:16]...)
	out := UF("aes.dec", 16, c.key, in)
	Axiom(BytesEq(UF("inj/aes.enc", 16, c.key, out), in))
	copy(dst, out)
}

//gosmt:model crypto/aes.NewCipher
func Model_aes_NewCipher(key []byte) (cipher.Block, error) {
	switch len(key) {
	case 16, 24, 32:
	default:
		return nil, errModel("crypto/aes: invalid key size")
	}
	return &ModelAES{key: append([]byte{}, key...)}, nil
}

// ---- XChaCha20-Poly1305: ideal AEAD (engine intrinsics AeadSeal / AeadOpen, closed world)

func AeadSeal(key, nonce, ad, pt []byte) []byte          { panic("engine only") }
func AeadOpen(key, nonce, ad, ct []byte) ([]byte, bool) { panic("engine only") }

type ModelAEAD struct {
	key       []byte
	nonceSize int
}

func (a *ModelAEAD) NonceSize() int { return a.nonceSize }
func (a *ModelAEAD) Overhead() int  { return 16 }
func (a *ModelAEAD) Seal(dst, nonce, plaintext, additionalData []byte) []byte {
	if len(nonce) != a.nonceSize {
		panic("chacha20poly1305: bad nonce length passed to Seal")
	}
	return append(dst, AeadSeal(a.key, nonce, additionalData, plaintext)...)
}
func (a *ModelAEAD) Open(dst, nonce, ciphertext, additionalData []byte) ([]byte, error) {
	if len(nonce) != a.nonceSize {
		panic("chacha20poly1305: bad nonce length passed to Open")
	}
	if len(ciphertext) < 16 {
		return nil, errModel("chacha20poly1305: message authentication failed")
	}
	pt, ok := AeadOpen(a.key, nonce, additionalData, ciphertext)
	if !ok {
		return nil, errModel("chacha20poly1305: message authentication failed")
	}
	return append(dst, pt...), nil
}

//gosmt:model golang.org/x/crypto/chacha20poly1305.NewX
func Model_chacha20poly1305_NewX(key []byte) (cipher.AEAD, error) {
	if len(key) != 32 {
		return nil, errModel("chacha20poly1305: bad key length")
	}
	return &ModelAEAD{key: append([]byte{}, key...), nonceSize: 24}, nil
}

//gosmt:model golang.org/x/crypto/chacha20poly1305.New
func Model_chacha20poly1305_New(key []byte) (cipher.AEAD, error) {
	if len(key) != 32 {
		return nil, errModel("chacha20poly1305: bad key length")
	}
	return &ModelAEAD{key: append([]byte{}, key...), nonceSize: 12}, nil
}

// ---- X25519 / Ed25519 <-> Curve25519 (ideal Diffie-Hellman)

func x25519Base(k []byte) []byte { return UF("inj/x25519.base", 32, k) }

// x25519DH is an ideal Diffie-Hellman: dh(k, P) is an injective function of the unordered pair
// {base(k), P}; hence dh(k1, base(k2)) == dh(k2, base(k1)) and unrelated pairs never collide.
func x25519DH(k, p []byte) []byte {
	bk := x25519Base(k)
	less := BytesLess(bk, p)
	lo := SelectBytes(less, bk, p)
	hi := SelectBytes(less, p, bk)
	return UF("inj/x25519.dhsym", 32, lo, hi)
}

//gosmt:model (*crypto/ecdh.x25519Curve).NewPrivateKey
func Model_x25519_NewPrivateKey(c any, key []byte) (*ecdh.PrivateKey, error) {
	if len(key) != 32 {
		return nil, errModel("crypto/ecdh: invalid private key size")
	}
	p := new(ecdh.PrivateKey)
	SideSet(p, append([]byte{}, key...))
	return p, nil
}

//gosmt:model (*crypto/ecdh.x25519Curve).NewPublicKey
func Model_x25519_NewPublicKey(c any, key []byte) (*ecdh.PublicKey, error) {
	if len(key) != 32 {
		return nil, errModel("crypto/ecdh: invalid public key")
	}
	p := new(ecdh.PublicKey)
	SideSet(p, append([]byte{}, key...))
	return p, nil
}

//gosmt:model (*crypto/ecdh.PrivateKey).ECDH
func Model_ecdh_PrivateKey_ECDH(k *ecdh.PrivateKey, remote *ecdh.PublicKey) ([]byte, error) {
	kb := SideGet(k).([]byte)
	pb := SideGet(remote).([]byte)
	out := x25519DH(kb, pb)
	// the real function fails only when the result is all-zero, i.e. for a low-order remote point;
	// idealisation: the ideal DH never outputs zero (callers exclude low-order points first)
	zero := true
	for _, b := range out {
		zero = And(zero, b == 0)
	}
	Axiom(Not(zero))
	return append([]byte{}, out...), nil
}

//gosmt:model (*crypto/ecdh.PrivateKey).Bytes
func Model_ecdh_PrivateKey_Bytes(k *ecdh.PrivateKey) []byte {
	return append([]byte{}, SideGet(k).([]byte)...)
}

//gosmt:model (*crypto/ecdh.PublicKey).Bytes
func Model_ecdh_PublicKey_Bytes(k *ecdh.PublicKey) []byte {
	return append([]byte{}, SideGet(k).([]byte)...)
}

//gosmt:model (*crypto/ecdh.PrivateKey).PublicKey
func Model_ecdh_PrivateKey_PublicKey(k *ecdh.PrivateKey) *ecdh.PublicKey {
	p := new(ecdh.PublicKey)
	SideSet(p, x25519Base(SideGet(k).([]byte)))
	return p
}

type edPubRec struct{ seed, pub []byte }

var edPubs []edPubRec
var edMonts []invRec // raw = masked ed bytes, txt = montgomery u

func clampSha512(seed []byte) []byte {
	d := UF("inj/sha512", 64, seed)
	k := append([]byte{}, d[:32]...)
	k[0] &= 248
	k[31] &= 127
	k[31] |= 64
	return k
}

// modelEdPub is the Ed25519 public key of a seed; it records the pair so that the birational
// link mont(pub(seed)) == base(clamp(sha512(seed))) can be instantiated.
func modelEdPub(seed []byte) []byte {
	pub := SigPub(seed)
	for _, r := range edPubs {
		if len(r.seed) == len(seed) && IsConcrete(seed) && IsConcrete(r.seed) && BytesEq(r.seed, seed) {
			return pub
		}
	}
	s := append([]byte{}, seed...)
	// an honestly derived public key is a valid point of large order
	Axiom(UFBool("edwards25519.valid", maskSign(pub)))
	Axiom(Not(edSmallOrder(pub)))
	for _, m := range edMonts {
		linkEdMont(s, pub, m)
	}
	for _, r := range edPubs {
		// two honest keys never share their y coordinate (differ only in the sign bit)
		Axiom(Implies(BytesEq(maskSign(r.pub), maskSign(pub)), BytesEq(r.seed, s)))
	}
	edPubs = append(edPubs, edPubRec{seed: s, pub: pub})
	return pub
}

var edSmallOrderSet = [7][32]byte{
	{0x00},
	{0x01},
	{0x26, 0xe8, 0x95, 0x8f, 0xc2, 0xb2, 0x27, 0xb0, 0x45, 0xc3, 0xf4, 0x89, 0xf2, 0xef, 0x98, 0xf0, 0xd5, 0xdf, 0xac, 0x05, 0xd3, 0xc6, 0x33, 0x39, 0xb1, 0x38, 0x02, 0x88, 0x6d, 0x53, 0xfc, 0x05},
	{0xc7, 0x17, 0x6a, 0x70, 0x3d, 0x4d, 0xd8, 0x4f, 0xba, 0x3c, 0x0b, 0x76, 0x0d, 0x10, 0x67, 0x0f, 0x2a, 0x20, 0x53, 0xfa, 0x2c, 0x39, 0xcc, 0xc6, 0x4e, 0xc7, 0xfd, 0x77, 0x92, 0xac, 0x03, 0x7a},
	{0xec, 0xff, 0xff, 0xff, 0xff, 0xff, 0xff, 0xff, 0xff, 0xff, 0xff, 0xff, 0xff, 0xff, 0xff, 0xff, 0xff, 0xff, 0xff, 0xff, 0xff, 0xff, 0xff, 0xff, 0xff, 0xff, 0xff, 0xff, 0xff, 0xff, 0xff, 0x7f},
	{0xed, 0xff, 0xff, 0xff, 0xff, 0xff, 0xff, 0xff, 0xff, 0xff, 0xff, 0xff, 0xff, 0xff, 0xff, 0xff, 0xff, 0xff, 0xff, 0xff, 0xff, 0xff, 0xff, 0xff, 0xff, 0xff, 0xff, 0xff, 0xff, 0xff, 0xff, 0x7f},
	{0xee, 0xff, 0xff, 0xff, 0xff, 0xff, 0xff, 0xff, 0xff, 0xff, 0xff, 0xff, 0xff, 0xff, 0xff, 0xff, 0xff, 0xff, 0xff, 0xff, 0xff, 0xff, 0xff, 0xff, 0xff, 0xff, 0xff, 0xff, 0xff, 0xff, 0xff, 0x7f},
}

func edSmallOrder(ed []byte) bool {
	m := maskSign(ed)
	in := false
	for i := range edSmallOrderSet {
		in = Or(in, BytesEq(m, edSmallOrderSet[i][:]))
	}
	return in
}

func maskSign(ed []byte) []byte {
	e := append([]byte{}, ed...)
	e[31] &= 0x7f
	return e
}

func linkEdMont(seed, pub []byte, m invRec) {
	Axiom(Implies(BytesEq(maskSign(pub), m.raw), BytesEq(m.txt, x25519Base(clampSha512(seed)))))
}

// edToMont maps a (valid) Ed25519 point encoding to its Montgomery u-coordinate; the sign bit of
// x does not influence the result.
func edToMont(ed []byte) []byte {
	raw := maskSign(ed)
	u := UF("inj/ed2mont", 32, raw)
	for _, m := range edMonts {
		if IsConcrete(raw) && IsConcrete(m.raw) && BytesEq(m.raw, raw) {
			return u
		}
	}
	m := invRec{raw: raw, txt: u}
	for _, r := range edPubs {
		linkEdMont(r.seed, r.pub, m)
	}
	edMonts = append(edMonts, m)
	return u
}

//gosmt:model (*filippo.io/edwards25519.Point).SetBytes
func Model_edwards25519_Point_SetBytes(p *edwards25519.Point, b []byte) (*edwards25519.Point, error) {
	if len(b) != 32 {
		return nil, errModel("edwards25519: invalid point encoding length")
	}
	if !UFBool("edwards25519.valid", maskSign(b)) {
		return nil, errModel("edwards25519: invalid point encoding")
	}
	SideSet(p, append([]byte{}, b...))
	return p, nil
}

//gosmt:model (*filippo.io/edwards25519.Point).BytesMontgomery
func Model_edwards25519_Point_BytesMontgomery(p *edwards25519.Point) []byte {
	return append([]byte{}, edToMont(SideGet(p).([]byte))...)
}

// ---- filippo.io/edwards25519/field: field arithmetic is idealised (uninterpreted functions over the
// canonical 32-byte value); code that bypasses Point.SetBytes and computes with field elements directly
// is therefore executable, and its result is unrelated to the result of the point decoding route.

func feVal(e *field.Element) []byte {
	if v := SideGet(e); v != nil {
		return v.([]byte)
	}
	return make([]byte, 32)
}

//gosmt:model (*filippo.io/edwards25519/field.Element).SetBytes
func Model_field_Element_SetBytes(e *field.Element, x []byte) (*field.Element, error) {
	if len(x) != 32 {
		return nil, errModel("edwards25519: invalid field element input size")
	}
	SideSet(e, maskSign(x))
	return e, nil
}

//gosmt:model (*filippo.io/edwards25519/field.Element).One
func Model_field_Element_One(e *field.Element) *field.Element {
	v := make([]byte, 32)
	v[0] = 1
	SideSet(e, v)
	return e
}

//gosmt:model (*filippo.io/edwards25519/field.Element).Zero
func Model_field_Element_Zero(e *field.Element) *field.Element {
	SideSet(e, make([]byte, 32))
	return e
}

//gosmt:model (*filippo.io/edwards25519/field.Element).Set
func Model_field_Element_Set(e, a *field.Element) *field.Element {
	SideSet(e, feVal(a))
	return e
}

//gosmt:model (*filippo.io/edwards25519/field.Element).Add
func Model_field_Element_Add(e, a, b *field.Element) *field.Element {
	SideSet(e, UF("fe.add", 32, feVal(a), feVal(b)))
	return e
}

//gosmt:model (*filippo.io/edwards25519/field.Element).Subtract
func Model_field_Element_Subtract(e, a, b *field.Element) *field.Element {
	SideSet(e, UF("fe.sub", 32, feVal(a), feVal(b)))
	return e
}

//gosmt:model (*filippo.io/edwards25519/field.Element).Multiply
func Model_field_Element_Multiply(e, a, b *field.Element) *field.Element {
	SideSet(e, UF("fe.mul", 32, feVal(a), feVal(b)))
	return e
}

//gosmt:model (*filippo.io/edwards25519/field.Element).Square
func Model_field_Element_Square(e, a *field.Element) *field.Element {
	SideSet(e, UF("fe.mul", 32, feVal(a), feVal(a)))
	return e
}

//gosmt:model (*filippo.io/edwards25519/field.Element).Invert
func Model_field_Element_Invert(e, a *field.Element) *field.Element {
	SideSet(e, UF("fe.inv", 32, feVal(a)))
	return e
}

//gosmt:model (*filippo.io/edwards25519/field.Element).Negate
func Model_field_Element_Negate(e, a *field.Element) *field.Element {
	SideSet(e, UF("fe.neg", 32, feVal(a)))
	return e
}

//gosmt:model (*filippo.io/edwards25519/field.Element).Bytes
func Model_field_Element_Bytes(e *field.Element) []byte {
	return append([]byte{}, feVal(e)...)
}
