package zz_verifrt

// Models for the envelope properties (C16-C18): Ristretto255 scalars as opaque 32-byte values and
// an ideal (t, n) secret sharing. The optional peer public-key encryption model lives in pkemodel.go.

import (
	"io"
	"math/big"

	"github.com/cloudflare/circl/group"
	"github.com/cloudflare/circl/secretsharing"
	"golang.org/x/crypto/cryptobyte"
)

// ModelScalar stands for a Ristretto255 scalar: its canonical 32-byte encoding.
type ModelScalar struct{ B []byte }

func newModelScalar(b []byte) *ModelScalar { return &ModelScalar{B: append([]byte{}, b...)} }

func (s *ModelScalar) Group() group.Group { return group.Ristretto255 }
func (s *ModelScalar) Set(x group.Scalar) group.Scalar {
	s.B = append([]byte{}, x.(*ModelScalar).B...)
	return s
}
func (s *ModelScalar) Copy() group.Scalar { return newModelScalar(s.B) }
func (s *ModelScalar) IsZero() bool {
	z := true
	for _, b := range s.B {
		z = And(z, b == 0)
	}
	return z
}
func (s *ModelScalar) IsEqual(x group.Scalar) bool { return BytesEq(s.B, x.(*ModelScalar).B) }
func (s *ModelScalar) SetUint64(x uint64) group.Scalar {
	b := make([]byte, 32)
	for i := 0; i < 8; i++ {
		b[i] = byte(x >> (8 * uint(i)))
	}
	s.B = b
	return s
}
func (s *ModelScalar) SetBigInt(b *big.Int) group.Scalar       { panic("ModelScalar.SetBigInt: unmodelled") }
func (s *ModelScalar) CMov(b int, x group.Scalar) group.Scalar { panic("ModelScalar.CMov: unmodelled") }
func (s *ModelScalar) CSelect(b int, x, y group.Scalar) group.Scalar {
	panic("ModelScalar.CSelect: unmodelled")
}
func (s *ModelScalar) Add(x, y group.Scalar) group.Scalar { panic("ModelScalar.Add: unmodelled") }
func (s *ModelScalar) Sub(x, y group.Scalar) group.Scalar { panic("ModelScalar.Sub: unmodelled") }
func (s *ModelScalar) Mul(x, y group.Scalar) group.Scalar { panic("ModelScalar.Mul: unmodelled") }
func (s *ModelScalar) Neg(x group.Scalar) group.Scalar    { panic("ModelScalar.Neg: unmodelled") }
func (s *ModelScalar) Inv(x group.Scalar) group.Scalar    { panic("ModelScalar.Inv: unmodelled") }
func (s *ModelScalar) MarshalBinary() ([]byte, error)     { return append([]byte{}, s.B...), nil }
func (s *ModelScalar) UnmarshalBinary(data []byte) error {
	if len(data) != 32 {
		return errModel("ristretto255: invalid scalar length")
	}
	if !UFBool("ristretto255.canonical", data) {
		return errModel("ristretto255: non-canonical scalar")
	}
	s.B = append([]byte{}, data...)
	return nil
}
func (s *ModelScalar) Marshal(b *cryptobyte.Builder) error { panic("ModelScalar.Marshal: unmodelled") }
func (s *ModelScalar) Unmarshal(str *cryptobyte.String) bool {
	panic("ModelScalar.Unmarshal: unmodelled")
}

var _ group.Scalar = (*ModelScalar)(nil)

func freshScalar(tag string) *ModelScalar {
	b := Bytes(tag, 32, 32)
	Axiom(UFBool("ristretto255.canonical", b))
	return &ModelScalar{B: b}
}

//gosmt:model (github.com/cloudflare/circl/group.ristrettoGroup).NewScalar
func Model_ristretto_NewScalar(g any) group.Scalar { return &ModelScalar{B: make([]byte, 32)} }

//gosmt:model (github.com/cloudflare/circl/group.ristrettoGroup).RandomScalar
func Model_ristretto_RandomScalar(g any, r io.Reader) group.Scalar {
	return freshScalar("env:scalar")
}

//gosmt:model (github.com/cloudflare/circl/group.ristrettoGroup).RandomNonZeroScalar
func Model_ristretto_RandomNonZeroScalar(g any, r io.Reader) group.Scalar {
	s := freshScalar("env:scalar")
	Axiom(Not(s.IsZero()))
	return s
}

// ---- ideal (t, n) secret sharing

type ssRec struct {
	t      uint
	secret []byte
	nonce  []byte // stands for the random polynomial coefficients
}

var ssSharings []ssRec

func ssShareValue(k int, id []byte) []byte {
	return UF("inj/ss.share", 32, ssSharings[k].secret, ssSharings[k].nonce, id)
}

//gosmt:model github.com/cloudflare/circl/secretsharing.New
func Model_secretsharing_New(rnd io.Reader, t uint, secret group.Scalar) secretsharing.SecretSharing {
	ssSharings = append(ssSharings, ssRec{t: t, secret: append([]byte{}, secret.(*ModelScalar).B...), nonce: Bytes("env:sharing", 8, 8)})
	return secretsharing.SecretSharing{}
}

//gosmt:model (github.com/cloudflare/circl/secretsharing.SecretSharing).Share
func Model_secretsharing_Share(ss secretsharing.SecretSharing, n uint) []secretsharing.Share {
	k := len(ssSharings) - 1
	if k < 0 {
		panic("secretsharing model: Share without New")
	}
	out := make([]secretsharing.Share, n)
	for i := range out {
		id := &ModelScalar{}
		id.SetUint64(uint64(i + 1))
		val := ssShareValue(k, id.B)
		Axiom(UFBool("ristretto255.canonical", id.B))
		Axiom(UFBool("ristretto255.canonical", val))
		out[i] = secretsharing.Share{ID: id, Value: &ModelScalar{B: val}}
	}
	return out
}

//gosmt:model github.com/cloudflare/circl/secretsharing.Recover
func Model_secretsharing_Recover(t uint, shares []secretsharing.Share) (group.Scalar, error) {
	if len(shares) <= int(t) {
		return nil, errModel("secretsharing: number of shares below threshold")
	}
	used := shares[:t+1]
	var ids, vals []byte
	for _, s := range used {
		ids = append(ids, s.ID.(*ModelScalar).B...)
		vals = append(vals, s.Value.(*ModelScalar).B...)
	}
	res := UF("ss.recover", 32, ids, vals)
	distinct := true
	for i := range used {
		for j := i + 1; j < len(used); j++ {
			distinct = And(distinct, Not(BytesEq(used[i].ID.(*ModelScalar).B, used[j].ID.(*ModelScalar).B)))
		}
	}
	for k := range ssSharings {
		if ssSharings[k].t != t {
			// interpolating a polynomial of another degree does not give that sharing's secret
			// (ideal sharing: the result is unrelated); nothing is asserted
			continue
		}
		genuine := distinct
		for _, s := range used {
			id := s.ID.(*ModelScalar).B
			genuine = And(genuine, BytesEq(s.Value.(*ModelScalar).B, ssShareValue(k, id)))
		}
		Axiom(Implies(genuine, BytesEq(res, ssSharings[k].secret)))
	}
	return &ModelScalar{B: res}, nil
}
