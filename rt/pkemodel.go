package zz_verifrt

// Optional model (tag "pke-contract") of peer public-key encryption summarised by its C12 contract,
// used by the envelope properties (C16-C18).
//
// This file imports a package of the repository under test (bifrost/crypto). The loader leaves it
// out of the zz_verifrt overlay whenever the package a harness is injected into is bifrost/crypto
// itself or one of its dependencies, because the harness imports zz_verifrt and that would close an
// import cycle (rtFilesFor in engine/main.go).

import (
	"github.com/aperturerobotics/bifrost/crypto"
)

// ---- peer public-key encryption summarised by its contract (C12), enabled per harness

func pkeRaw(k crypto.Key) []byte {
	b, err := k.Raw()
	if err != nil {
		panic("pke model: key without raw form")
	}
	return b
}

//gosmt:model-opt pke-contract github.com/aperturerobotics/bifrost/peer.EncryptToPubKey
func Model_peer_EncryptToPubKey(pubKey crypto.PubKey, context string, msgSrc []byte) ([]byte, error) {
	if pubKey == nil {
		return nil, errModel("nil public key")
	}
	ct := AeadSeal(pkeRaw(pubKey), []byte(context), nil, msgSrc)
	// real ciphertexts carry a 36-byte prefix in front of the sealed body
	return append(make([]byte, 36), ct...), nil
}

//gosmt:model-opt pke-contract github.com/aperturerobotics/bifrost/peer.DecryptWithPrivKey
func Model_peer_DecryptWithPrivKey(privKey crypto.PrivKey, context string, ciphertext []byte) ([]byte, error) {
	if privKey == nil {
		return nil, errModel("nil private key")
	}
	if len(ciphertext) < 36+16 {
		return nil, errModel("short message")
	}
	for _, b := range ciphertext[:36] {
		if b != 0 {
			return nil, errModel("bad prefix")
		}
	}
	pt, ok := AeadOpen(pkeRaw(privKey.GetPublic()), []byte(context), nil, ciphertext[36:])
	if !ok {
		return nil, errModel("decryption failed")
	}
	return pt, nil
}
