package zz_verifrt

import "regexp"

// Regexp returns a regular expression object. Under the engine its matching behaviour is an
// uninterpreted predicate named by tag (regexp semantics are outside the claim); natively it is
// the compiled pattern.
func Regexp(tag, pattern string) *regexp.Regexp {
	if Symbolic() {
		re := &regexp.Regexp{}
		SideSet(re, tag)
		return re
	}
	return regexp.MustCompile(pattern)
}

//gosmt:model (*regexp.Regexp).MatchString
func Model_regexp_MatchString(re *regexp.Regexp, s string) bool {
	tag, _ := SideGet(re).(string)
	return UFBool("regexp.match."+tag, []byte(s))
}

// RegexpMatches is the harness-side view of the same predicate.
func RegexpMatches(re *regexp.Regexp, s string) bool { return re.MatchString(s) }
