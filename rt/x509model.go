package zz_verifrt

import (
	"crypto/x509"
)

// Model certificates: the harness registers, for a raw byte tag, the parsed certificate it stands for and
// whether it verifies as self-signed. X.509/ASN.1 parsing and chain verification are outside the claim
// (standard library); what is checked is how the repository's code uses their results.

type modelCert struct {
	raw        []byte
	cert       *x509.Certificate
	selfSigned bool
	parseErr   bool
}

var modelCerts []*modelCert

// RegisterCert makes x509.ParseCertificate(raw) return cert (or an error) and cert.Verify succeed
// exactly when selfSigned.
func RegisterCert(raw []byte, cert *x509.Certificate, selfSigned, parseErr bool) {
	modelCerts = append(modelCerts, &modelCert{raw: raw, cert: cert, selfSigned: selfSigned, parseErr: parseErr})
}

//gosmt:model crypto/x509.ParseCertificate
func Model_x509_ParseCertificate(der []byte) (*x509.Certificate, error) {
	for _, m := range modelCerts {
		if BytesEq(m.raw, der) {
			if m.parseErr {
				return nil, errModel("x509: malformed certificate")
			}
			return m.cert, nil
		}
	}
	return nil, errModel("x509: malformed certificate")
}

//gosmt:model crypto/x509.NewCertPool
func Model_x509_NewCertPool() *x509.CertPool { return new(x509.CertPool) }

//gosmt:model (*crypto/x509.CertPool).AddCert
func Model_x509_CertPool_AddCert(p *x509.CertPool, c *x509.Certificate) {}

//gosmt:model (*crypto/x509.Certificate).Verify
func Model_x509_Certificate_Verify(c *x509.Certificate, opts x509.VerifyOptions) ([][]*x509.Certificate, error) {
	for _, m := range modelCerts {
		if m.cert == c {
			if len(c.UnhandledCriticalExtensions) > 0 {
				return nil, errModel("x509: unhandled critical extension")
			}
			if m.selfSigned {
				return [][]*x509.Certificate{{c}}, nil
			}
			return nil, errModel("x509: certificate signed by unknown authority")
		}
	}
	return nil, errModel("x509: certificate signed by unknown authority")
}

// ModelCertKey stands for the certificate's own (ECDSA) public key.
type ModelCertKey struct{ ID []byte }

//gosmt:model crypto/x509.MarshalPKIXPublicKey
func Model_x509_MarshalPKIXPublicKey(pub any) ([]byte, error) {
	k, ok := pub.(*ModelCertKey)
	if !ok {
		return nil, errModel("x509: unsupported public key type")
	}
	return UF("inj/pkix", 16, k.ID), nil
}
