package zz_verifrt

import (
	"context"
	"net"

	"github.com/aperturerobotics/bifrost/crypto"
	p2ptls "github.com/aperturerobotics/bifrost/crypto/tls"
	"github.com/aperturerobotics/bifrost/peer"
	transport_quic "github.com/aperturerobotics/bifrost/transport/common/quic"
	"github.com/quic-go/quic-go"
	"github.com/sirupsen/logrus"
)

// QuicSessionCall records one call of transport_quic.ListenSession / DialSession made by the code under
// test (quic-go is outside the claim; the argument that binds the handshake to a peer is what matters).
type QuicSessionCall struct {
	Dial  bool
	RPeer peer.ID
	Addr  net.Addr
}

var QuicSessionCalls []QuicSessionCall

//gosmt:model github.com/aperturerobotics/bifrost/transport/common/quic.ListenSession
func Model_quic_ListenSession(ctx context.Context, le *logrus.Entry, opts *transport_quic.Opts, pconn net.PacketConn, identity *p2ptls.Identity, rpeer peer.ID) (*quic.Conn, error) {
	QuicSessionCalls = append(QuicSessionCalls, QuicSessionCall{RPeer: rpeer})
	return nil, errModel("model: no handshake")
}

//gosmt:model github.com/aperturerobotics/bifrost/transport/common/quic.DialSession
func Model_quic_DialSession(ctx context.Context, le *logrus.Entry, opts *transport_quic.Opts, pconn net.PacketConn, identity *p2ptls.Identity, addr net.Addr, rpeer peer.ID) (*quic.Conn, crypto.PubKey, error) {
	QuicSessionCalls = append(QuicSessionCalls, QuicSessionCall{Dial: true, RPeer: rpeer, Addr: addr})
	return nil, nil, errModel("model: no handshake")
}
