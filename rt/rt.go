// Package zz_verifrt is the harness runtime. Under the gosmt engine every function below is
// intercepted (fresh symbolic inputs, assumptions, assertions). Compiled natively the same
// functions replay a recorded counterexample vector ($VERIF_REPLAY) so that a harness is an
// ordinary test of the real build.
package zz_verifrt

import (
	"encoding/hex"
	"encoding/json"
	"fmt"
	"os"
	"reflect"
	"runtime/debug"
	"strings"
	"sync"
	"time"
)

type replayItem struct {
	Tag  string `json:"tag"`
	Kind string `json:"kind"`
	Int  uint64 `json:"int,omitempty"`
	Hex  string `json:"hex,omitempty"`
	N    int    `json:"n,omitempty"`
}

type replayFile struct {
	Entry  string       `json:"entry"`
	Label  string       `json:"label"`
	Inputs []replayItem `json:"inputs"`
	Tier   int          `json:"tier"`
}

type assumeFailed struct{ what string }
type assertFailed struct{ label string }

var envCtr uint64 = 88172645463325252

var (
	mu      sync.Mutex
	rf      *replayFile
	pos     int
	failed  []string
	reached []string
	tier    int
	wg      sync.WaitGroup
	logs    = map[string][]any{}
)

func next(tag, kind string) replayItem {
	mu.Lock()
	defer mu.Unlock()
	if rf == nil {
		panic(assumeFailed{"no replay vector loaded"})
	}
	if pos >= len(rf.Inputs) {
		panic(assumeFailed{"replay vector exhausted at " + tag})
	}
	for pos < len(rf.Inputs) && strings.HasPrefix(rf.Inputs[pos].Tag, "env:") && !strings.HasPrefix(tag, "env:") {
		pos++ // environment values chosen by the engine's models have no native counterpart
	}
	if pos >= len(rf.Inputs) {
		panic(assumeFailed{"replay vector exhausted at " + tag})
	}
	it := rf.Inputs[pos]
	pos++
	if it.Kind != kind || !strings.HasPrefix(it.Tag, tag+"#") {
		panic(assumeFailed{fmt.Sprintf("replay vector mismatch: want %s/%s got %s/%s", tag, kind, it.Tag, it.Kind)})
	}
	return it
}

func Tier() int            { return tier }
func Bool(tag string) bool { return next(tag, "int").Int != 0 }
func U8(tag string) uint8  { return uint8(next(tag, "int").Int) }
func U16(tag string) uint16 {
	return uint16(next(tag, "int").Int)
}
func U32(tag string) uint32 { return uint32(next(tag, "int").Int) }
func U64(tag string) uint64 { return next(tag, "int").Int }
func I32(tag string) int32  { return int32(next(tag, "int").Int) }
func I64(tag string) int64  { return int64(next(tag, "int").Int) }
func Int(tag string) int    { return int(int64(next(tag, "int").Int)) }

// IntRange returns an arbitrary value in lo..hi (case split under the engine).
func IntRange(tag string, lo, hi int) int { return next(tag, "choice").N + lo }

// Choose returns an arbitrary value in 0..n-1 (case split under the engine).
func Choose(tag string, n int) int { return next(tag, "choice").N }

// Bytes returns a byte slice of every length in minLen..maxLen with arbitrary contents.
func Bytes(tag string, minLen, maxLen int) []byte {
	if strings.HasPrefix(tag, "env:") {
		// environment values (randomness, generated keys): use the recorded value when the native run
		// asks for it at the same point with a fitting length, otherwise arbitrary bytes
		mu.Lock()
		if rf != nil && pos < len(rf.Inputs) && rf.Inputs[pos].Kind == "bytes" && strings.HasPrefix(rf.Inputs[pos].Tag, tag+"#") && len(rf.Inputs[pos].Hex) >= 2*minLen && len(rf.Inputs[pos].Hex) <= 2*maxLen {
			it := rf.Inputs[pos]
			pos++
			mu.Unlock()
			b, _ := hex.DecodeString(it.Hex)
			return b
		}
		mu.Unlock()
		b := make([]byte, minLen)
		for i := range b {
			envCtr = envCtr*6364136223846793005 + 1442695040888963407
			b[i] = byte(envCtr >> 33)
		}
		return b
	}
	it := next(tag, "bytes")
	b, _ := hex.DecodeString(it.Hex)
	if b == nil {
		b = []byte{}
	}
	return b
}

// BytesOfLen returns a byte slice whose length is one of lens, contents arbitrary.
func BytesOfLen(tag string, lens ...int) []byte { return Bytes(tag, 0, 0) }

func String(tag string, minLen, maxLen int) string { return string(Bytes(tag, minLen, maxLen)) }
func StringOfLen(tag string, lens ...int) string   { return string(Bytes(tag, 0, 0)) }

// NilBytes returns nil or a non-nil empty/filled slice (nil-ness is a choice).
func Assume(cond bool) {
	if !cond {
		panic(assumeFailed{"assumption false in replay"})
	}
}

func Assert(label string, cond bool) {
	if !cond {
		mu.Lock()
		failed = append(failed, label)
		mu.Unlock()
		panic(assertFailed{label})
	}
}

// Check is Assert that does not end the path natively (all failing labels are collected).
func Reach(label string) {
	mu.Lock()
	reached = append(reached, label)
	mu.Unlock()
}

func Cover(label string, cond bool) {}

// KnownFinding marks the region of inputs covered by known finding id. Returns cond.
func KnownFinding(id string, cond bool) bool { return cond }

func ExpectPanic()        {}
func AllocLimit(n int)    {}
func Unwind(n int)        {}
func SchedBound(preempt int, freeSwitch bool) {}
func MapOrder(on bool)    {}

// Go starts a named goroutine.
func Go(name string, f func()) {
	wg.Add(1)
	go func() {
		defer wg.Done()
		f()
	}()
}

// Quiesce waits until no goroutine can make progress (natively: a grace period).
func Quiesce() { time.Sleep(150 * time.Millisecond) }

// Yield is a scheduling point.
func Yield() {}

func Log(stream string, v any) {
	mu.Lock()
	logs[stream] = append(logs[stream], v)
	mu.Unlock()
}

func Logged(stream string) []any {
	mu.Lock()
	defer mu.Unlock()
	return append([]any{}, logs[stream]...)
}

func LogLen(stream string) int {
	mu.Lock()
	defer mu.Unlock()
	return len(logs[stream])
}

// SameBytes reports whether two slices share their first element's address (aliasing check).
func SameBacking(a, b []byte) bool {
	if cap(a) == 0 || cap(b) == 0 {
		return false
	}
	return &a[:1][0] == &b[:1][0]
}

// OwnMethods returns the number of methods of interface *ifacePtr that are not methods of interface
// *basePtr (pass typed nil pointers, e.g. (*SolicitProtocol)(nil), (*directive.Directive)(nil)).
func OwnMethods(ifacePtr, basePtr any) int {
	a := reflect.TypeOf(ifacePtr).Elem()
	b := reflect.TypeOf(basePtr).Elem()
	base := map[string]bool{}
	for i := 0; i < b.NumMethod(); i++ {
		base[b.Method(i).Name] = true
	}
	n := 0
	for i := 0; i < a.NumMethod(); i++ {
		if !base[a.Method(i).Name] {
			n++
		}
	}
	return n
}

// RunReplay runs the entry named in $VERIF_REPLAY and prints the outcome.
// Output line: REPLAY-RESULT: <violated label=..|panic msg=..|passed|assume-failed msg=..>
func RunReplay(entries map[string]func()) (outcome string) {
	path := os.Getenv("VERIF_REPLAY")
	if path == "" {
		fmt.Println("REPLAY-RESULT: skipped (no VERIF_REPLAY)")
		return "skipped"
	}
	data, err := os.ReadFile(path)
	if err != nil {
		fmt.Println("REPLAY-RESULT: error", err)
		return "error"
	}
	var f replayFile
	if err := json.Unmarshal(data, &f); err != nil {
		fmt.Println("REPLAY-RESULT: error", err)
		return "error"
	}
	rf = &f
	pos = 0
	tier = f.Tier
	fn, ok := entries[f.Entry]
	if !ok {
		fmt.Println("REPLAY-RESULT: error unknown entry", f.Entry)
		return "error"
	}
	done := make(chan string, 1)
	go func() {
		defer func() {
			if r := recover(); r != nil {
				switch x := r.(type) {
				case assumeFailed:
					done <- "assume-failed msg=" + x.what
				case assertFailed:
					done <- "violated label=" + x.label
				default:
					st := string(debug.Stack())
					site := ""
					for _, ln := range strings.Split(st, "\n") {
						if strings.Contains(ln, ".go:") && !strings.Contains(ln, "runtime/") && !strings.Contains(ln, "zz_verifrt") {
							site = strings.TrimSpace(ln)
							break
						}
					}
					done <- fmt.Sprintf("panic msg=%v site=%s", r, site)
				}
				return
			}
			done <- "passed"
		}()
		fn()
	}()
	select {
	case outcome = <-done:
	case <-time.After(60 * time.Second):
		outcome = "timeout"
	}
	mu.Lock()
	if outcome == "passed" && len(failed) > 0 {
		outcome = "violated label=" + failed[0]
	}
	mu.Unlock()
	fmt.Println("REPLAY-RESULT: " + outcome)
	return outcome
}
