package zz_verifrt

// File-system and PEM models for key-file properties (C39) with native counterparts for replay.

import (
	"encoding/pem"
	"io/fs"
	"os"
	"path/filepath"
)

type modelFSState struct {
	stat       int // 0 exists, 1 does not exist, 2 other stat error
	content    []byte
	readFails  bool
	writeFails bool
	written    []byte
	wrote      bool
}

var modelFS modelFSState
var nativeKeyPath string

var errModelNotExist = &modelError{"file does not exist"}
var errModelOther = &modelError{"stat: not a directory"}
var errModelIO = &modelError{"input/output error"}

// FSSetup prepares the situation of the key file and returns the path to pass to the code.
func FSSetup(stat int, content []byte, readFails, writeFails bool) string {
	if Symbolic() {
		modelFS = modelFSState{stat: stat, content: content, readFails: readFails, writeFails: writeFails}
		return "/model/key.pem"
	}
	dir, err := os.MkdirTemp("", "verif-keyfile-")
	if err != nil {
		panic(err)
	}
	p := filepath.Join(dir, "key.pem")
	switch stat {
	case 0:
		if readFails {
			os.Mkdir(p, 0o755) // exists, but reading a directory fails
		} else {
			os.WriteFile(p, content, 0o600)
		}
	case 1:
		if writeFails {
			p = filepath.Join(dir, "missing-dir", "key.pem") // does not exist and cannot be created
		}
	case 2:
		f := filepath.Join(dir, "plainfile")
		os.WriteFile(f, []byte("x"), 0o600)
		p = filepath.Join(f, "key.pem") // ENOTDIR: a stat error that is not "does not exist"
	}
	nativeKeyPath = p
	return p
}

// FSWritten returns what was written to the key file (nil if nothing was written).
func FSWritten() []byte {
	if Symbolic() {
		if !modelFS.wrote {
			return nil
		}
		return modelFS.written
	}
	b, err := os.ReadFile(nativeKeyPath)
	if err != nil {
		return nil
	}
	return b
}

//gosmt:model os.Stat
func Model_os_Stat(name string) (fs.FileInfo, error) {
	switch modelFS.stat {
	case 0:
		return nil, nil
	case 1:
		return nil, errModelNotExist
	}
	return nil, errModelOther
}

//gosmt:model os.IsNotExist
func Model_os_IsNotExist(err error) bool { return err == error(errModelNotExist) }

//gosmt:model os.ReadFile
func Model_os_ReadFile(name string) ([]byte, error) {
	if modelFS.stat != 0 && !modelFS.wrote {
		return nil, errModelNotExist
	}
	if modelFS.readFails {
		return nil, errModelIO
	}
	if modelFS.wrote {
		return append([]byte{}, modelFS.written...), nil
	}
	return append([]byte{}, modelFS.content...), nil
}

//gosmt:model os.WriteFile
func Model_os_WriteFile(name string, data []byte, perm os.FileMode) error {
	if modelFS.writeFails {
		return errModelIO
	}
	modelFS.written = append([]byte{}, data...)
	modelFS.wrote = true
	modelFS.stat = 0
	return nil
}

// ---- PEM: an inverse pair over (type, bytes)

type pemRec struct {
	typ  string
	raw  []byte
	text []byte
}

var pemEncs []pemRec

func pemEncLen(t, n int) int { return 32 + 2*t + 2*n }

//gosmt:model encoding/pem.EncodeToMemory
func Model_pem_EncodeToMemory(b *pem.Block) []byte {
	text := UF("inj/pem.enc", pemEncLen(len(b.Type), len(b.Bytes)), []byte(b.Type), b.Bytes)
	pemEncs = append(pemEncs, pemRec{typ: b.Type, raw: append([]byte{}, b.Bytes...), text: text})
	return text
}

//gosmt:model encoding/pem.Decode
func Model_pem_Decode(data []byte) (*pem.Block, []byte) {
	if IsConcrete(data) {
		return pem.Decode(data)
	}
	var cands []int
	for i, e := range pemEncs {
		if len(e.text) == len(data) {
			cands = append(cands, i)
		}
	}
	minimal := 30 // "-----BEGIN -----\n-----END -----" and a payload
	k := 0
	if len(data) >= minimal {
		k = Choose("env:pem.decode", 2+len(cands))
	} else if len(cands) > 0 {
		k = 2 * Choose("env:pem.decode", 1+len(cands))
		if k > 0 {
			k = k/2 + 1
		}
	}
	if k >= 2 {
		e := pemEncs[cands[k-2]]
		Assume(BytesEq(data, e.text))
		return &pem.Block{Type: e.typ, Bytes: append([]byte{}, e.raw...)}, nil
	}
	for _, i := range cands {
		Assume(Not(BytesEq(data, pemEncs[i].text)))
	}
	if k == 0 {
		return nil, data
	}
	// an arbitrary well-formed block that is not one we produced
	tl := []int{18, 17, 3}[Choose("env:pem.typelen", 3)]
	bl := []int{0, 2, 4}[Choose("env:pem.byteslen", 3)]
	typ := UF("pem.dec.type", tl, data)
	raw := UF("pem.dec.bytes", bl, data)
	return &pem.Block{Type: string(typ), Bytes: raw}, nil
}
