package zz_verifrt

import "sync"

// sync.Map is modelled as an association list (its real implementation reaches into runtime internals).
type modelSyncMap struct {
	keys, vals []any
}

func smGet(m *sync.Map) *modelSyncMap {
	if v := SideGet(m); v != nil {
		return v.(*modelSyncMap)
	}
	sm := &modelSyncMap{}
	SideSet(m, sm)
	return sm
}

func (sm *modelSyncMap) find(key any) int {
	for i, k := range sm.keys {
		if k == key {
			return i
		}
	}
	return -1
}

//gosmt:model (*sync.Map).Load
func Model_syncMap_Load(m *sync.Map, key any) (any, bool) {
	sm := smGet(m)
	if i := sm.find(key); i >= 0 {
		return sm.vals[i], true
	}
	return nil, false
}

//gosmt:model (*sync.Map).Store
func Model_syncMap_Store(m *sync.Map, key, value any) {
	sm := smGet(m)
	if i := sm.find(key); i >= 0 {
		sm.vals[i] = value
		return
	}
	sm.keys = append(sm.keys, key)
	sm.vals = append(sm.vals, value)
}

//gosmt:model (*sync.Map).LoadOrStore
func Model_syncMap_LoadOrStore(m *sync.Map, key, value any) (any, bool) {
	sm := smGet(m)
	if i := sm.find(key); i >= 0 {
		return sm.vals[i], true
	}
	sm.keys = append(sm.keys, key)
	sm.vals = append(sm.vals, value)
	return value, false
}

//gosmt:model (*sync.Map).Delete
func Model_syncMap_Delete(m *sync.Map, key any) {
	sm := smGet(m)
	if i := sm.find(key); i >= 0 {
		sm.keys = append(sm.keys[:i], sm.keys[i+1:]...)
		sm.vals = append(sm.vals[:i], sm.vals[i+1:]...)
	}
}

//gosmt:model (*sync.Map).Range
func Model_syncMap_Range(m *sync.Map, f func(key, value any) bool) {
	sm := smGet(m)
	for i := range sm.keys {
		if !f(sm.keys[i], sm.vals[i]) {
			return
		}
	}
}
