package zz_verifrt

import (
	"crypto/tls"
	"crypto/x509"
	"net"

	"github.com/quic-go/quic-go"
)

// Model QUIC connections: the harness registers, for a *quic.Conn it allocated, the certificate chain
// the remote presented in the (not modelled) handshake and the remote address. quic-go itself is
// outside the claim; what is checked is what the repository does with an established connection.
type modelQuicConn struct {
	conn   *quic.Conn
	certs  []*x509.Certificate
	addr   net.Addr
	closed int
}

var modelQuicConns []*modelQuicConn

func RegisterQuicConn(c *quic.Conn, certs []*x509.Certificate, addr net.Addr) {
	modelQuicConns = append(modelQuicConns, &modelQuicConn{conn: c, certs: certs, addr: addr})
}

// QuicConnClosed reports how often CloseWithError was called on a model connection.
func QuicConnClosed(c *quic.Conn) int {
	for _, m := range modelQuicConns {
		if m.conn == c {
			return m.closed
		}
	}
	return 0
}

func modelQuic(c *quic.Conn) *modelQuicConn {
	for _, m := range modelQuicConns {
		if m.conn == c {
			return m
		}
	}
	panic("zz_verifrt: unregistered quic connection")
}

//gosmt:model (*github.com/quic-go/quic-go.Conn).ConnectionState
func Model_quic_Conn_ConnectionState(c *quic.Conn) quic.ConnectionState {
	return quic.ConnectionState{TLS: tls.ConnectionState{PeerCertificates: modelQuic(c).certs}}
}

//gosmt:model (*github.com/quic-go/quic-go.Conn).RemoteAddr
func Model_quic_Conn_RemoteAddr(c *quic.Conn) net.Addr { return modelQuic(c).addr }

//gosmt:model (*github.com/quic-go/quic-go.Conn).CloseWithError
func Model_quic_Conn_CloseWithError(c *quic.Conn, code quic.ApplicationErrorCode, msg string) error {
	modelQuic(c).closed++
	return nil
}
