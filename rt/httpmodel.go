package zz_verifrt

import (
	"net/http"
	"net/url"
	"strings"
)

// ModelStripPrefix stands for net/http.StripPrefix: it records the prefix and, when served, passes the
// request on with the prefix removed from the path (404 when the path does not start with it), which is
// the documented behaviour; RawPath handling is left out.
type ModelStripPrefix struct {
	Prefix string
	H      http.Handler
}

func (m *ModelStripPrefix) ServeHTTP(w http.ResponseWriter, r *http.Request) {
	if !strings.HasPrefix(r.URL.Path, m.Prefix) {
		if w != nil {
			w.WriteHeader(404)
		}
		return
	}
	r2 := &http.Request{Method: r.Method, URL: &url.URL{Path: r.URL.Path[len(m.Prefix):]}}
	m.H.ServeHTTP(w, r2)
}

//gosmt:model net/http.StripPrefix
func Model_http_StripPrefix(prefix string, h http.Handler) http.Handler {
	if prefix == "" {
		return h
	}
	return &ModelStripPrefix{Prefix: prefix, H: h}
}
