package zz_verifrt

import "time"

var modelClock int64 = 1700000000

//gosmt:model time.Now
func Model_time_Now() time.Time {
	modelClock++
	return time.Unix(modelClock, 0)
}

// Timers never fire on their own ("deadlines fire only when the harness fires them", DESIGN.md §3.2).

//gosmt:model time.AfterFunc
func Model_time_AfterFunc(d time.Duration, f func()) *time.Timer { return &time.Timer{} }

//gosmt:model (*time.Timer).Stop
func Model_time_Timer_Stop(t *time.Timer) bool { return true }

//gosmt:model time.Until
func Model_time_Until(t time.Time) time.Duration { return time.Hour }

var modelTickers []chan time.Time

//gosmt:model time.NewTicker
func Model_time_NewTicker(d time.Duration) *time.Ticker {
	ch := make(chan time.Time, 1)
	modelTickers = append(modelTickers, ch)
	return &time.Ticker{C: ch}
}

//gosmt:model (*time.Ticker).Stop
func Model_time_Ticker_Stop(t *time.Ticker) {}

// FireTickers makes every ticker created so far tick once (native: tickers run on the real clock).
func FireTickers() {
	for _, ch := range modelTickers {
		select {
		case ch <- time.Unix(modelClock, 0):
		default:
		}
	}
}
