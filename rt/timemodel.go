package zz_verifrt

import "time"

var modelClock int64 = 1700000000

//gosmt:model time.Now
func Model_time_Now() time.Time {
	modelClock++
	return time.Unix(modelClock, 0)
}
