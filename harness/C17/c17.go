package envelope

import (
	"github.com/aperturerobotics/bifrost/crypto"
	rt "github.com/aperturerobotics/bifrost/zz_verifrt"
)

// VerifC17Openable: a configuration accepted by BuildEnvelope can be opened by all its recipients
// together.
func VerifC17Openable() {
	s := envChooseSetup(true)
	env, err := BuildEnvelope(envRand{}, s.ctx, s.payload, s.pubs(), s.cfg)
	if err != nil {
		rt.Reach("config rejected")
		return
	}
	rt.Reach("config accepted")
	var privs []crypto.PrivKey
	all := make([]bool, len(s.keys))
	for i, k := range s.keys {
		privs = append(privs, k.priv)
		all[i] = true
	}
	// the two known ways a configuration is accepted although its recipients cannot open it
	placedTotal := 0
	for _, p := range s.placed {
		placedTotal += p
	}
	emptyGrantHoldsShares := false
	for gi, gc := range s.cfg.GrantConfigs {
		if len(gc.KeypairIndexes) == 0 && s.placed[gi] > 0 {
			emptyGrantHoldsShares = true
		}
	}
	rt.KnownFinding("C17-threshold-vs-total-override", placedTotal < int(s.threshold)+1)
	rt.KnownFinding("C17-shares-in-grant-without-keypairs", emptyGrantHoldsShares)
	payload, res, uerr := UnlockEnvelope(s.ctx, env, privs)
	rt.Assert("all recipients together open an accepted envelope", uerr == nil && res != nil && res.GetSuccess() && rt.BytesEq(payload, s.payload))
	rt.Reach("end")
}
