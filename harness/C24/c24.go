package signaling_rpc_server

import (
	signaling "github.com/aperturerobotics/bifrost/signaling/rpc"
	rt "github.com/aperturerobotics/bifrost/zz_verifrt"
)

// c24Sys drives the real relay with listen and session calls of up to three peers towards listener L.
type c24Sys struct {
	w        *svWorld
	L        *svPeer
	P        []*svPeer      // session openers
	listens  []*svListen    // every listen call of L, in start order
	sess     [][]*svSession // per opener: every session call towards L, in start order
	lsess    []*svSession   // sessions L itself opened towards P[i] (index = event order)
	lsessTo  []int
}

func c24New() *c24Sys {
	s := &c24Sys{w: svNewWorld(), L: svNewPeer(200)}
	s.P = []*svPeer{svNewPeer(1), svNewPeer(60), svNewPeer(120)}
	s.sess = make([][]*svSession, len(s.P))
	return s
}

// activeListen is the newest listen call that has not returned.
func (s *c24Sys) activeListen() *svListen {
	for i := len(s.listens) - 1; i >= 0; i-- {
		if !s.listens[i].done {
			return s.listens[i]
		}
	}
	return nil
}

// wanting is the set of peers that hold an open (not returned, not cancelled) session call towards L.
func (s *c24Sys) wanting() map[string]bool {
	out := map[string]bool{}
	for i, calls := range s.sess {
		for _, c := range calls {
			if !c.done {
				out[s.P[i].txt] = true
			}
		}
	}
	return out
}

// step performs one symbolic event; np is the number of openers in play.
func (s *c24Sys) step(np int) { s.stepN(np, 5) }

// stepN: nkinds = 4 leaves out the answering session.
func (s *c24Sys) stepN(np, nkinds int) {
	switch rt.Choose("event", nkinds) {
	case 0: // L starts (another) listen call; an older one is replaced
		if len(s.listens) > 0 {
			rt.Quiesce() // "newer" means: arrives at the relay after the older call was registered
		}
		s.listens = append(s.listens, s.w.listen("listen", s.L))
	case 1: // the newest running listen call is cancelled
		if l := s.activeListen(); l != nil {
			l.cancel()
		}
	case 2: // an opener starts (another) session call towards L; an older one of the same peer is replaced
		i := rt.Choose("opener", np)
		if len(s.sess[i]) > 0 {
			rt.Quiesce()
		}
		s.sess[i] = append(s.sess[i], s.w.open("session", s.P[i], s.L))
	case 3: // an opener's newest running session call ends (client went away)
		i := rt.Choose("closer", np)
		for k := len(s.sess[i]) - 1; k >= 0; k-- {
			if !s.sess[i][k].done {
				s.sess[i][k].cancel()
				break
			}
		}
	case 4: // L itself opens a session towards an opener (the answering side of a session)
		i := rt.Choose("answerTo", np)
		for j := range s.lsess {
			if s.lsessTo[j] == i {
				rt.Quiesce()
				break
			}
		}
		s.lsess = append(s.lsess, s.w.open("answer", s.L, s.P[i]))
		s.lsessTo = append(s.lsessTo, i)
	}
}

func c24Bounds() (events, openers int) {
	if rt.Tier() > 0 {
		return 4, 2
	}
	return 3, 2
}

// VerifC24Listen: at quiescence after every history of listen start/cancel/usurp and session
// open/close/re-open events, the peers announced (SetPeer minus ClearPeer) on the active listen stream
// are exactly the peers holding an open session call towards the listener.
func VerifC24Listen() {
	rt.SchedBound(0, false)
	rt.MapOrder(true)
	// listen histories need four events (open, listen, close, re-open): quick uses one opener, thorough two
	k, np := 4, 1
	if rt.Tier() > 0 {
		np = 2
	}
	s := c24New()
	n := rt.IntRange("events", 1, k)
	for i := 0; i < n; i++ {
		s.stepN(np, 5)
		if i == n-1 || rt.Choose("settle", 2) == 1 {
			rt.Quiesce()
			if l := s.activeListen(); l != nil {
				rt.Reach("listener active at quiescence")
				got, want := l.announced(), s.wanting()
				rt.KnownFinding("C24-listening-flag-never-set", true)
				for p := range want {
					rt.Assert("every peer holding an open session request is announced to the active listener", got[p])
				}
				for p := range got {
					rt.Assert("only peers holding an open session request remain announced", want[p])
				}
			}
		}
	}
	rt.Reach("end")
}

// VerifC25Unique: at most one listen call per peer and one session call per ordered pair stays active;
// a replaced call ends with the replaced error; when every call has ended the relay holds no state.
func VerifC25Unique() {
	rt.SchedBound(0, false)
	rt.MapOrder(true)
	k, np := 4, 1
	if rt.Tier() > 0 {
		np = 2
	}
	s := c24New()
	n := rt.IntRange("events", 1, k)
	for i := 0; i < n; i++ {
		s.step(np)
		if rt.Choose("settle", 2) == 1 {
			rt.Quiesce()
		}
	}
	rt.Quiesce()
	running := 0
	for li, l := range s.listens {
		if !l.done {
			running++
			rt.Assert("only the newest listen call of a peer stays active", li == len(s.listens)-1)
		} else if li < len(s.listens)-1 && l.ctx.Err() == nil {
			rt.Reach("listen replaced")
			rt.Assert("a replaced listen call ends with the replaced error", l.err == signaling.ErrUserpedListen)
		}
	}
	rt.Assert("at most one active listen call per peer", running <= 1)
	checkCalls := func(calls []*svSession) {
		act := 0
		for ci, c := range calls {
			if !c.done {
				act++
				for _, later := range calls[ci+1:] {
					rt.Assert("an older session call stays active only if every newer one was cancelled by its own client", later.done && later.ctx.Err() != nil)
				}
			} else if ci < len(calls)-1 && c.ctx.Err() == nil {
				rt.Reach("session replaced")
				rt.Assert("a replaced session call ends with the replaced error", c.err == signaling.ErrUserpedSession)
			}
		}
		rt.Assert("at most one active session call per ordered pair", act <= 1)
	}
	for i := range s.sess {
		checkCalls(s.sess[i])
	}
	for i := 0; i < np; i++ {
		var calls []*svSession
		for j, c := range s.lsess {
			if s.lsessTo[j] == i {
				calls = append(calls, c)
			}
		}
		checkCalls(calls)
	}
	// now end everything
	for _, l := range s.listens {
		l.cancel()
	}
	for i := range s.sess {
		for _, c := range s.sess[i] {
			c.cancel()
		}
	}
	for _, c := range s.lsess {
		c.cancel()
	}
	rt.Quiesce()
	for _, l := range s.listens {
		rt.Assert("every listen call has returned", l.done)
	}
	rt.Assert("no per-peer state is left when all calls have ended", len(s.w.srv.peers) == 0)
	rt.Assert("no per-session state is left when all calls have ended", len(s.w.srv.sessions) == 0)
	rt.Reach("end")
}

// VerifC25ReplacedAndGone: a session call is replaced by a newer call of the same pair while its own
// client goes away (or it sends a request) in the same instant, under every run-to-block order of the
// calls involved: the newer call is not disturbed — it never ends with the replaced error, since
// nothing replaced it — and when every call has ended the relay holds no state.
func VerifC25ReplacedAndGone() {
	rt.SchedBound(0, false)
	s := c24New()
	var ans *svSession
	if rt.Choose("answered", 2) == 1 {
		ans = s.w.open("answer", s.L, s.P[0])
	}
	o1 := s.w.open("older", s.P[0], s.L)
	rt.Quiesce()
	// the newer call arrives; the older call's client goes away at the same time: from here on every
	// choice of the next runnable call is explored
	rt.SchedBound(0, true)
	o2 := s.w.open("newer", s.P[0], s.L)
	o1.cancel()
	rt.Quiesce()
	rt.SchedBound(0, false)
	rt.Assert("the older call has ended", o1.done)
	rt.Assert("the newest call of the pair stays active (nothing replaced it and its client is there)", !o2.done)
	if ans != nil {
		_, isOpen, _ := o2.lastAnnounced()
		rt.Assert("the newest call is attached to the answering session", isOpen)
		ans.cancel()
	}
	o2.cancel()
	rt.Quiesce()
	rt.Assert("no per-peer state is left when all calls have ended", len(s.w.srv.peers) == 0)
	rt.Assert("no per-session state is left when all calls have ended", len(s.w.srv.sessions) == 0)
	rt.Reach("end")
}

// VerifC24SlowListener: the listen stream is slow (one of its first two Sends blocks) while two peers
// open and close sessions; once the stream drains, the announced set still converges to the peers that
// hold an open session request.
func VerifC24SlowListener() {
	rt.SchedBound(0, false)
	rt.MapOrder(true)
	s := c24New()
	l := s.w.listen("listen", s.L)
	l.slowAt = 1 + rt.Choose("slowSendAt", 2)
	s.listens = append(s.listens, l)
	rt.Quiesce()
	for i := 0; i < 3; i++ {
		p := rt.Choose("who", 2)
		if rt.Choose("what", 2) == 0 {
			if len(s.sess[p]) > 0 {
				rt.Quiesce()
			}
			s.sess[p] = append(s.sess[p], s.w.open("session", s.P[p], s.L))
		} else {
			for k := len(s.sess[p]) - 1; k >= 0; k-- {
				if !s.sess[p][k].done {
					s.sess[p][k].cancel()
					break
				}
			}
		}
		rt.Quiesce()
	}
	close(l.gate)
	rt.Quiesce()
	got, want := l.announced(), s.wanting()
	for p := range want {
		rt.Assert("after the slow stream drained, every peer holding an open session request is announced", got[p])
	}
	for p := range got {
		rt.Assert("after the slow stream drained, only peers holding an open session request remain announced", want[p])
	}
	rt.Reach("end")
}
