package peer

import (
	"crypto/ed25519"

	"github.com/aperturerobotics/bifrost/crypto"
	rt "github.com/aperturerobotics/bifrost/zz_verifrt"
)

func c12Key(tag string) (crypto.PrivKey, crypto.PubKey, []byte) {
	seed := rt.Bytes(tag, 32, 32)
	std := ed25519.NewKeyFromSeed(seed)
	k, pub, err := crypto.KeyPairFromStdKey(&std)
	rt.Assert("key from seed", err == nil)
	return k, pub, seed
}

func c12Bounds() (ctxMax, msgMax int) {
	if rt.Tier() > 0 {
		return 3, 4
	}
	return 1, 1
}

// VerifC12RoundTrip: Decrypt(sk, ctx, Encrypt(pk, ctx, m)) == m for every key, context, message.
func VerifC12RoundTrip() {
	cm, mm := c12Bounds()
	priv, pub, _ := c12Key("seed")
	ctx := rt.String("ctx", 0, cm)
	msg := rt.Bytes("msg", 0, mm)
	ct, err := EncryptToPubKey(pub, ctx, msg)
	if err != nil {
		return // cannot happen for an honest key; kept so that the check does not depend on it
	}
	rt.Assert("ciphertext layout: 4+32 prefix + sealed body", len(ct) >= 36+16)
	saved := append([]byte{}, ct...)
	// a failed attempt under another context first (optional), then the real one, then once more: decryption
	// reads the ciphertext, it does not consume or alter it
	if rt.Choose("wrongContextFirst", 2) == 1 {
		_, werr := DecryptWithPrivKey(priv, ctx+"x", ct)
		rt.Assert("other context rejected", werr != nil)
	}
	pt, err := DecryptWithPrivKey(priv, ctx, ct)
	rt.Assert("decrypt of own ciphertext succeeds", err == nil)
	rt.Assert("round trip returns the message", rt.BytesEq(pt, msg))
	rt.Assert("decryption leaves the caller's ciphertext untouched", rt.BytesEq(ct, saved))
	pt2, err2 := DecryptWithPrivKey(priv, ctx, ct)
	rt.Assert("the same ciphertext decrypts again to the same message", err2 == nil && rt.BytesEq(pt2, msg))
	rt.Reach("end")
}

// VerifC12Binding: decryption under another context, another key, or of a modified / truncated /
// extended ciphertext fails (it never returns a different plaintext).
func VerifC12Binding() {
	cm, mm := c12Bounds()
	priv, pub, seed := c12Key("seed")
	ctx := rt.String("ctx", 0, cm)
	msg := rt.Bytes("msg", 0, mm)
	ct, err := EncryptToPubKey(pub, ctx, msg)
	if err != nil {
		return
	}
	switch rt.Choose("attack", 5) {
	case 0: // other context
		ctx2 := rt.String("ctx2", 0, cm)
		rt.Assume(ctx2 != ctx)
		pt, err := DecryptWithPrivKey(priv, ctx2, ct)
		rt.Assert("other context rejected", err != nil && pt == nil)
		rt.Reach("ctx")
	case 1: // other key
		priv2, _, seed2 := c12Key("seed2")
		rt.Assume(!rt.BytesEq(seed, seed2))
		pt, err := DecryptWithPrivKey(priv2, ctx, ct)
		rt.Assert("other key rejected", err != nil && pt == nil)
		rt.Reach("key")
	case 2: // one byte replaced
		i := rt.Int("pos") // symbolic position: one path covers every byte of the ciphertext
		rt.Assume(i >= 0 && i < len(ct))
		nb := rt.U8("newbyte")
		ct2 := make([]byte, len(ct))
		changed := false
		for k := range ct {
			hit := i == k
			ct2[k] = rt.Ite8(hit, nb, ct[k])
			changed = rt.Or(changed, rt.And(hit, nb != ct[k]))
		}
		rt.Assume(changed)
		pt, err := DecryptWithPrivKey(priv, ctx, ct2)
		rt.Assert("modified ciphertext rejected", err != nil && pt == nil)
		rt.Reach("flip")
	case 3: // truncated
		n := rt.Choose("keep", len(ct))
		rt.KnownFinding("C12-short-ciphertext-panic", n == 34 || n == 35)
		pt, err := DecryptWithPrivKey(priv, ctx, ct[:n])
		rt.Assert("truncated ciphertext rejected", err != nil && pt == nil)
		rt.Reach("trunc")
	case 4: // extended
		ext := rt.Bytes("ext", 1, 2)
		pt, err := DecryptWithPrivKey(priv, ctx, append(append([]byte{}, ct...), ext...))
		rt.Assert("extended ciphertext rejected", err != nil && pt == nil)
		rt.Reach("ext")
	}
	rt.Reach("end")
}

// VerifC12Arbitrary: an arbitrary ciphertext of every length 0..56 is rejected or decrypted,
// never a panic.
func VerifC12Arbitrary() {
	priv, _, _ := c12Key("seed")
	ctx := rt.String("ctx", 0, 1)
	max := 56
	if rt.Tier() > 0 {
		max = 64
	}
	ct := rt.Bytes("ct", 0, max)
	rt.KnownFinding("C12-short-ciphertext-panic", len(ct) == 34 || len(ct) == 35)
	pt, err := DecryptWithPrivKey(priv, ctx, ct)
	rt.Assert("arbitrary bytes are not a valid ciphertext (ideal AEAD)", err != nil && pt == nil)
	rt.Reach("end")
}

