package signaling_rpc_server

import (
	signaling "github.com/aperturerobotics/bifrost/signaling/rpc"
	rt "github.com/aperturerobotics/bifrost/zz_verifrt"
)

// c21Setup: A and B hold an open session; both write loops are parked. Returns the trackers.
func c21Setup() (w *svWorld, A, B *svPeer, sa, sb *svSession, sess *sessionTracker, ta, tb *sessionPeerTracker) {
	w = svNewWorld()
	A, B = svNewPeer(1), svNewPeer(60)
	sa = w.open("A", A, B)
	sb = w.open("B", B, A)
	rt.Quiesce()
	key, aIsPeerA := newSessionKey(A.txt, B.txt)
	sess = w.srv.sessions[key]
	rt.Assert("session registered with both ends attached", sess != nil && sess.peerA != nil && sess.peerB != nil)
	if aIsPeerA {
		ta, tb = sess.peerA, sess.peerB
	} else {
		ta, tb = sess.peerB, sess.peerA
	}
	return
}

// c21Mailbox puts a tracker's inbound mailbox into an arbitrary state that the relay can be in between
// two steps: empty, a message waiting to be transmitted (recv), or transmitted and not yet acked (recvSent).
func c21Mailbox(tag string, from *svPeer, t *sessionPeerTracker) (pending, sent *uint64) {
	switch rt.Choose(tag+":mailbox", 3) {
	case 1:
		n := rt.U64(tag + ":pendingSeqno")
		t.recv = svMsg(from, 9, n)
		pending = &n
	case 2:
		n := rt.U64(tag + ":sentSeqno")
		t.recvSent = &n
		sent = &n
	}
	return
}

func c21Acks(s *svSession, from int) (out []uint64) {
	for _, m := range s.sent[from:] {
		if b, ok := m.GetBody().(*signaling.SessionResponse_AckMsg); ok {
			out = append(out, b.AckMsg)
		}
	}
	return
}

func c21Clears(s *svSession, from int) (out []uint64) {
	for _, m := range s.sent[from:] {
		if b, ok := m.GetBody().(*signaling.SessionResponse_ClearMsg); ok {
			out = append(out, b.ClearMsg)
		}
	}
	return
}

func c21Recvs(s *svSession, from int) (out []uint64) {
	for _, m := range s.sent[from:] {
		if b, ok := m.GetBody().(*signaling.SessionResponse_RecvMsg); ok {
			out = append(out, b.RecvMsg.GetSeqno())
		}
	}
	return
}

// VerifC21ServerAck: from every mailbox state, an AckMsg(epoch e, number a) submitted by B is passed
// on to A exactly when e is the current epoch and a names the message the relay last transmitted to B;
// it never acknowledges another message and never touches a message still waiting.
func VerifC21ServerAck() {
	rt.SchedBound(0, false)
	_, A, _, sa, sb, sess, _, tb := c21Setup()
	epoch := sess.seqno
	pendingB, sentB := c21Mailbox("B", A, tb)
	na, nb := len(sa.sent), len(sb.sent)
	e, a := rt.U64("epoch"), rt.U64("ack")
	sb.reqCh <- &signaling.SessionRequest{SessionSeqno: e, Body: &signaling.SessionRequest_AckMsg{AckMsg: a}}
	rt.Quiesce()
	acks := c21Acks(sa, na)
	match := e == epoch && sentB != nil && *sentB == a
	if match {
		rt.Reach("ack passed on")
		rt.Assert("the sender is told exactly the acknowledged message", len(acks) == 1 && acks[0] == a)
		rt.Assert("the acknowledged message is no longer outstanding", tb.recvSent == nil)
	} else {
		rt.Reach("ack ignored")
		rt.Assert("an ack for another epoch or another message acknowledges nothing", len(acks) == 0)
		if sentB != nil && e <= epoch {
			rt.Assert("and leaves the outstanding message outstanding", tb.recvSent != nil && *tb.recvSent == *sentB)
		}
	}
	if e > epoch {
		rt.Assert("a future epoch is an error for the submitter", sb.done && sb.err != nil)
	} else {
		rt.Assert("the submitter's call goes on", !sb.done)
	}
	if pendingB != nil && e <= epoch {
		// the waiting message is transmitted when the write loop next runs, ack or not
		rt.Assert("a waiting message is neither lost nor acknowledged by the ack", len(c21Recvs(sb, nb)) <= 1)
	}
	rt.Assert("nothing is acknowledged or cleared towards the acker", len(c21Acks(sb, nb)) == 0 && len(c21Clears(sb, nb)) == 0)
	rt.Reach("end")
}

// VerifC21ServerClear: from every mailbox state, a ClearMsg(e, c) submitted by A removes exactly the
// named message: one still waiting in B's mailbox is dropped silently, one already transmitted to B is
// withdrawn with ClearMsg(c); any other number or epoch changes nothing.
func VerifC21ServerClear() {
	rt.SchedBound(0, false)
	_, A, _, sa, sb, sess, _, tb := c21Setup()
	epoch := sess.seqno
	pendingB, sentB := c21Mailbox("B", A, tb)
	nb := len(sb.sent)
	e, c := rt.U64("epoch"), rt.U64("clear")
	sa.reqCh <- &signaling.SessionRequest{SessionSeqno: e, Body: &signaling.SessionRequest_ClearMsg{ClearMsg: c}}
	rt.Quiesce()
	// let the partner's write loop run so that whatever is still waiting gets transmitted
	sess.broadcast()
	rt.Quiesce()
	clears, recvs := c21Clears(sb, nb), c21Recvs(sb, nb)
	cur := e == epoch
	switch {
	case cur && pendingB != nil && *pendingB == c:
		rt.Reach("waiting message dropped")
		rt.Assert("the named waiting message is never delivered", len(recvs) == 0 && len(clears) == 0)
	case cur && sentB != nil && *sentB == c:
		rt.Reach("transmitted message withdrawn")
		rt.Assert("the receiver is told to drop exactly the named message", len(clears) == 1 && clears[0] == c)
		rt.Assert("the message is no longer outstanding", tb.recvSent == nil)
	default:
		rt.Reach("clear ignored")
		rt.Assert("a clear for another message or epoch withdraws nothing", len(clears) == 0)
		if pendingB != nil && e <= epoch {
			rt.Assert("a waiting message it does not name is still delivered", len(recvs) == 1 && recvs[0] == *pendingB)
		}
		if sentB != nil && e <= epoch {
			rt.Assert("an outstanding message it does not name stays outstanding", tb.recvSent != nil && *tb.recvSent == *sentB)
		}
	}
	if e > epoch {
		rt.Assert("a future epoch is an error for the submitter", sa.done && sa.err != nil)
	}
	rt.Reach("end")
}

// VerifC21ServerSend: a message submitted under the current epoch is transmitted to the partner once
// and becomes the outstanding message (the one an ack may name); under an older epoch it is dropped.
func VerifC21ServerSend() {
	rt.SchedBound(0, false)
	_, A, _, sa, sb, sess, _, tb := c21Setup()
	epoch := sess.seqno
	nb := len(sb.sent)
	e, n := rt.U64("epoch"), rt.U64("msgSeqno")
	sa.reqCh <- &signaling.SessionRequest{SessionSeqno: e, Body: &signaling.SessionRequest_SendMsg{SendMsg: svMsg(A, 7, n)}}
	rt.Quiesce()
	recvs := c21Recvs(sb, nb)
	if e == epoch {
		rt.Reach("forwarded")
		rt.Assert("transmitted to the partner exactly once", len(recvs) == 1 && recvs[0] == n)
		rt.Assert("and recorded as the outstanding message", tb.recvSent != nil && *tb.recvSent == n && tb.recv == nil)
	} else {
		rt.Reach("not forwarded")
		rt.Assert("a message of another epoch is not transmitted", len(recvs) == 0 && tb.recvSent == nil && tb.recv == nil)
	}
	rt.Reach("end")
}
