package signaling_rpc_client

import (
	"context"

	"github.com/aperturerobotics/bifrost/hash"
	signaling_rpc "github.com/aperturerobotics/bifrost/signaling/rpc"
	rt "github.com/aperturerobotics/bifrost/zz_verifrt"
)

func c21Sent(s *clSess, from int) (sends, acks, clears []*signaling_rpc.SessionRequest) {
	for _, m := range s.sent[from:] {
		switch m.GetBody().(type) {
		case *signaling_rpc.SessionRequest_SendMsg:
			sends = append(sends, m)
		case *signaling_rpc.SessionRequest_AckMsg:
			acks = append(acks, m)
		case *signaling_rpc.SessionRequest_ClearMsg:
			clears = append(clears, m)
		}
	}
	return
}

// VerifC21ClientSend: one Send against a relay that answers with an arbitrary sequence of responses:
// Send reports success only after an acknowledgement naming its own message arrived in the epoch in
// which the message was handed to the relay; acks and clears with other numbers change nothing.
func VerifC21ClientSend() {
	k := 2
	if rt.Tier() > 0 {
		k = 3
	}
	rt.SchedBound(0, false)
	A, Me := clNewPeer(1), clNewPeer(60)
	w := clNewWorld(Me, A, true)
	epoch := rt.U64("epoch")
	w.sess.respCh <- clOpened(epoch)
	rt.Quiesce()
	var sendErr error
	var sentMsg *signaling_rpc.SessionMsg
	sendDone := false
	sctx, scancel := context.WithCancel(w.ctx)
	rt.Go("send", func() {
		sentMsg, sendErr = w.ref.Send(sctx, []byte{7})
		sendDone = true
	})
	rt.Quiesce()
	sends, _, _ := c21Sent(w.sess, 1)
	rt.Assert("the message is handed to the relay once, under the announced epoch", len(sends) == 1 && sends[0].GetSessionSeqno() == epoch)
	my := sends[0].GetSendMsg().GetSeqno()
	rt.Assert("Send waits for the acknowledgement", !sendDone)
	// ghost: was an ack naming my message delivered while the epoch of its transmission was current?
	acked := false
	curEpoch := epoch
	txEpoch := epoch // epoch under which the message was last handed to the relay
	tx := true       // the relay holds the message for the current epoch
	n := rt.IntRange("responses", 1, k)
	for i := 0; i < n && !sendDone; i++ {
		switch rt.Choose("resp", 4) {
		case 0:
			x := rt.U64("ack")
			w.sess.respCh <- clAck(x)
			if x == my && tx && txEpoch == curEpoch {
				acked = true
			}
		case 1:
			w.sess.respCh <- clClear(rt.U64("clear"))
		case 2:
			e2 := rt.U64("epoch2")
			w.sess.respCh <- clOpened(e2)
			if e2 != curEpoch {
				curEpoch = e2
				tx = false
			}
		case 3:
			w.sess.respCh <- clClosed()
			tx = false
		}
		rt.Quiesce()
		// the client re-submits after a re-open: note the epoch it used
		s2, _, _ := c21Sent(w.sess, 1)
		if len(s2) > 0 {
			last := s2[len(s2)-1]
			rt.Assert("only my own message is ever submitted", last.GetSendMsg().GetSeqno() == my)
			if !tx && last.GetSessionSeqno() == curEpoch && len(s2) > len(sends) {
				tx = true
				txEpoch = curEpoch
			}
			sends = s2
		}
		if sendDone {
			rt.Reach("send returned")
			rt.Assert("Send reports success only after its own message was acknowledged in the epoch it was submitted in", sendErr != nil || acked)
			rt.Assert("Send returns the message it sent", sendErr != nil || (sentMsg != nil && sentMsg.GetSeqno() == my))
		}
	}
	scancel()
	rt.Quiesce()
	rt.Assert("cancelling ends the Send", sendDone)
	rt.Reach("end")
}

// VerifC21ClientAckAfterRecv: the client acknowledges message x to the relay only after its application
// took x from Recv, names exactly x, under the epoch the message arrived in; a Clear naming another
// message does not remove it.
func VerifC21ClientAckAfterRecv() {
	rt.SchedBound(0, false)
	A, Me := clNewPeer(1), clNewPeer(60)
	w := clNewWorld(Me, A, true)
	epoch := rt.U64("epoch")
	w.sess.respCh <- clOpened(epoch)
	rt.Quiesce()
	seq := rt.U64("msgSeqno")
	rt.Assume(seq != 0) // the protocol numbers messages from 1 (txNonce.Add(1)); 0 means "no message"
	m, err := signaling_rpc.NewSessionMsg(A.priv, hash.HashType_HashType_BLAKE3, []byte{5}, seq)
	rt.Assert("partner message", err == nil)
	w.sess.respCh <- clRecv(m)
	rt.Quiesce()
	_, acks, _ := c21Sent(w.sess, 1)
	rt.Assert("nothing is acknowledged before the application received the message", len(acks) == 0)
	cleared := false
	if rt.Choose("clearFirst", 2) == 1 {
		c := rt.U64("clear")
		w.sess.respCh <- clClear(c)
		rt.Quiesce()
		cleared = c == seq
	}
	var got *signaling_rpc.SessionMsg
	recvDone := false
	rt.Go("app", func() {
		got, _ = w.ref.Recv(w.ctx)
		recvDone = true
	})
	rt.Quiesce()
	_, acks, _ = c21Sent(w.sess, 1)
	if cleared {
		rt.Reach("withdrawn before delivery")
		rt.Assert("a message withdrawn by its sender is not handed to the application", !recvDone && len(acks) == 0)
	} else {
		rt.Reach("delivered")
		rt.Assert("the application receives the message", recvDone && got != nil && got.GetSeqno() == seq)
		rt.Assert("exactly that message is acknowledged, once, under the current epoch", len(acks) == 1 && acks[0].GetAckMsg() == seq && acks[0].GetSessionSeqno() == epoch)
	}
	rt.Reach("end")
}

// VerifC21ClientReplace: a message the application has taken is withdrawn by its sender and replaced by
// the next one before the client's session routine got to acknowledge it (every run-to-block order of
// the application, the reader and the session routine): the client never acknowledges a message that it
// has not handed to the application, and the replacement is handed over.
func VerifC21ClientReplace() {
	rt.SchedBound(0, true)
	A, Me := clNewPeer(1), clNewPeer(60)
	w := clNewWorld(Me, A, true)
	w.sess.respCh <- clOpened(5)
	rt.Quiesce()
	m1, err := signaling_rpc.NewSessionMsg(A.priv, hash.HashType_HashType_BLAKE3, []byte{1}, 1)
	rt.Assert("m1", err == nil)
	m2, err := signaling_rpc.NewSessionMsg(A.priv, hash.HashType_HashType_BLAKE3, []byte{2}, 2)
	rt.Assert("m2", err == nil)
	w.sess.respCh <- clRecv(m1)
	rt.Quiesce()
	// the sender cancels m1 and sends m2; the application starts receiving at the same time
	w.sess.respCh <- clClear(1)
	w.sess.respCh <- clRecv(m2)
	var got []uint64
	rt.Go("app", func() {
		for {
			m, err := w.ref.Recv(w.ctx)
			if err != nil {
				return
			}
			got = append(got, m.GetSeqno())
		}
	})
	rt.Quiesce()
	_, acks, _ := c21Sent(w.sess, 1)
	for _, a := range acks {
		handed := false
		for _, g := range got {
			if g == a.GetAckMsg() {
				handed = true
			}
		}
		rt.Assert("an acknowledged message was handed to the application", handed)
	}
	gotM2 := false
	for _, g := range got {
		if g == 2 {
			gotM2 = true
		}
	}
	rt.Assert("the replacement message reaches the application", gotM2)
	rt.Reach("end")
}
