package transport_quic

import (
	"context"
	"crypto/ed25519"
	"crypto/x509"
	"crypto/x509/pkix"
	"net"

	"github.com/aperturerobotics/bifrost/crypto"
	p2ptls "github.com/aperturerobotics/bifrost/crypto/tls"
	"github.com/aperturerobotics/bifrost/link"
	"github.com/aperturerobotics/bifrost/peer"
	"github.com/aperturerobotics/bifrost/transport"
	"github.com/quic-go/quic-go"
	"github.com/sirupsen/logrus"
	rt "github.com/aperturerobotics/bifrost/zz_verifrt"
)

type c05Ident struct {
	priv crypto.PrivKey
	id   peer.ID
}

func c05Key(b byte) *c05Ident {
	seed := make([]byte, 32)
	seed[0] = b
	std := ed25519.NewKeyFromSeed(seed)
	k, pub, err := crypto.KeyPairFromStdKey(&std)
	if err != nil {
		panic(err)
	}
	id, err := peer.IDFromPublicKey(pub)
	if err != nil {
		panic(err)
	}
	return &c05Ident{priv: k, id: id}
}

type c05Addr string

func (a c05Addr) Network() string { return "model" }
func (a c05Addr) String() string  { return string(a) }

type c05Handler struct {
	transport.TransportHandler
	established []link.Link
	lost        []link.Link
	// onLost runs once inside the next HandleLinkLost callback (what another goroutine may do meanwhile)
	onLost func()
}

func (h *c05Handler) HandleLinkEstablished(l link.Link) { h.established = append(h.established, l) }
func (h *c05Handler) HandleLinkLost(l link.Link) {
	h.lost = append(h.lost, l)
	if h.onLost != nil {
		f := h.onLost
		h.onLost = nil
		f()
	}
}

var c05CertN byte

// c05Conn is an established connection to whoever answered: the remote presented a valid chain for `who`.
func c05Conn(who *c05Ident, addr string) *quic.Conn {
	c05CertN++
	ck := &rt.ModelCertKey{ID: []byte{0xC0, c05CertN}}
	ext, err := p2ptls.GenerateSignedExtension(who.priv, ck)
	rt.Assert("extension", err == nil)
	cert := &x509.Certificate{PublicKey: ck, Extensions: []pkix.Extension{ext}}
	rt.RegisterCert([]byte{0x30, c05CertN}, cert, true, false)
	c := new(quic.Conn)
	rt.RegisterQuicConn(c, []*x509.Certificate{cert}, c05Addr(addr))
	return c
}

// VerifC05Dial: dialing peer X at an address where either X or another peer Y (with its own valid
// identity) answers: a successful dial is a link whose authenticated remote peer is X; when Y answered,
// the dial fails, no link to Y is left registered for that address, and a later dial of X at the same
// address succeeds once X answers there.
func VerifC05Dial() {
	rt.SchedBound(0, false)
	local, X, Y := c05Key(1), c05Key(60), c05Key(120)
	ctx := context.Background()
	h := &c05Handler{}
	answers := []*c05Ident{X, Y}
	var conns []*quic.Conn
	script := []int{rt.Choose("firstAnswer", 2), rt.Choose("secondAnswer", 2)}
	dialN := 0
	t := &Transport{ctx: ctx, le: logrus.NewEntry(logrus.New()), peerID: local.id, privKey: local.priv, uuid: 9,
		laddr: peer.NewNetAddr(local.id), handler: h, opts: &Opts{}, links: map[string]*Link{}, dialers: map[string]*Dialer{}}
	// the dialed address may resolve to a different address string (a host name dialed, an IP connected)
	resolved := "addr1"
	if rt.Choose("resolvesToOtherString", 2) == 1 {
		resolved = "10.0.0.7:4000"
	}
	t.dialFn = func(ctx context.Context, addr string) (*quic.Conn, net.Addr, error) {
		who := answers[script[dialN]]
		dialN++
		c := c05Conn(who, resolved)
		conns = append(conns, c)
		return c, c05Addr(resolved), nil
	}
	// optionally the impostor has already connected inbound from the address that is about to be dialed
	inbound := resolved == "addr1" && rt.Choose("impostorConnectedInbound", 2) == 1
	var inLink *Link
	if inbound {
		var ierr error
		inLink, ierr = t.HandleSession(ctx, c05Conn(Y, "addr1"))
		rt.Assert("inbound session yields a link to the impostor", ierr == nil && inLink.GetRemotePeer() == Y.id)
		rt.Quiesce()
	}
	dial := func(name string) (link.Link, error, bool) {
		var l link.Link
		var err error
		done := false
		rt.Go(name, func() {
			l, _, err = t.DialPeer(ctx, X.id, "addr1")
			done = true
		})
		rt.Quiesce()
		return l, err, done
	}
	l1, err1, done1 := dial("dial1")
	rt.Assert("the dial completes", done1)
	if inbound {
		// the address is occupied by a link to another peer: the dial must not report that link as X's
		rt.Reach("address occupied by the impostor")
		if err1 == nil && l1 != nil {
			rt.Assert("a successful dial of X is a link whose authenticated remote peer is X", l1.GetRemotePeer() == X.id)
		}
		// the impostor's link goes away; then X can be dialed there
		_ = inLink.Close()
		rt.Quiesce()
		script[0] = 0
		dialN = 0
		l1, err1, done1 = dial("dial1b")
		rt.Assert("the dial completes", done1)
	}
	if script[0] == 0 {
		rt.Reach("X answered")
		rt.Assert("dialing X where X answers yields a link", err1 == nil && l1 != nil)
	} else {
		rt.Reach("Y answered")
	}
	if err1 == nil && l1 != nil {
		rt.KnownFinding("C05-dial-result-not-compared-with-requested-peer", script[0] == 1)
		rt.Assert("a successful dial of X is a link whose authenticated remote peer is X", l1.GetRemotePeer() == X.id)
	}
	if script[0] == 1 {
		rt.Assert("when another peer answers, the dial is not counted as a link to X", err1 != nil || l1 == nil)
		lk, ok := t.LookupLinkWithAddr(resolved)
		rt.Assert("no link to the impostor stays registered for the dialed address", !ok || lk.GetRemotePeer() == X.id)
		// a later request for X at the same address
		l2, err2, done2 := dial("dial2")
		rt.Assert("the second dial completes", done2)
		if script[1] == 0 {
			rt.Reach("X reachable later")
			rt.Assert("once X answers at the address, a later dial of X succeeds", err2 == nil && l2 != nil && l2.GetRemotePeer() == X.id)
		} else if err2 == nil && l2 != nil {
			rt.Assert("a successful dial of X is a link whose authenticated remote peer is X", l2.GetRemotePeer() == X.id)
		}
	}
	for _, l := range h.established {
		lost := false
		for _, o := range h.lost {
			if o == l {
				lost = true
			}
		}
		if l.GetRemotePeer() != X.id {
			rt.Assert("a link to the impostor that was reported established is reported lost again", lost)
		}
	}
	rt.Reach("end")
}
