package link_solicit

import (
	"github.com/aperturerobotics/bifrost/link"
	"github.com/aperturerobotics/bifrost/stream"
	rt "github.com/aperturerobotics/bifrost/zz_verifrt"
)

type c31Stream struct {
	stream.Stream
	closed   bool
	closeErr error
}

// Close always takes effect (the stream is gone afterwards); it may additionally report an error, as
// a stream on a reset link does.
func (s *c31Stream) Close() error {
	s.closed = true
	return s.closeErr
}

type c31Err struct{}

func (c31Err) Error() string { return "stream reset" }

type c31MS struct {
	link.MountedStream
	strm *c31Stream
}

func (m *c31MS) GetStream() stream.Stream { return m.strm }

// VerifC31AcceptClose: two concurrent accepts and one close of a solicited stream, every
// interleaving within the preemption bound: at most one accept gets the stream, an accept never
// gets a stream that Close reported closing, and an accepted stream is never closed.
func VerifC31AcceptClose() {
	p := 1
	if rt.Tier() > 0 {
		p = 2
	}
	rt.SchedBound(p, true)
	rt.KnownFinding("C31-accept-reads-err-unlocked", true)
	strm := &c31Stream{}
	if rt.Choose("closeReportsError", 2) == 1 {
		strm.closeErr = c31Err{}
	}
	s := NewSolicitMountedStream(&c31MS{strm: strm}).(*solicitMountedStream)
	var got [2]link.MountedStream
	var dup [2]bool
	var errs [2]error
	closedRet := false
	rt.Go("accept1", func() { got[0], dup[0], errs[0] = s.AcceptMountedStream() })
	rt.Go("accept2", func() { got[1], dup[1], errs[1] = s.AcceptMountedStream() })
	rt.Go("close", func() { closedRet = s.Close() })
	rt.Quiesce()
	owners := 0
	for i := range got {
		if got[i] != nil {
			owners++
			rt.Assert("a returned stream comes without error or duplicate flag", errs[i] == nil && !dup[i])
		} else {
			rt.Assert("an accept without a stream says why", errs[i] != nil || dup[i])
		}
	}
	rt.Assert("at most one accept returns the stream", owners <= 1)
	rt.Assert("after Close reported closing the stream, no accept owns it", !(closedRet && owners > 0))
	rt.Assert("an owned stream is not closed", !(owners > 0 && strm.closed))
	rt.Assert("Close reports true exactly when it closed the stream", closedRet == strm.closed)
	rt.Assert("somebody ends up responsible for the stream", owners == 1 || strm.closed)
	// a late accept, after everything settled
	late, ldup, lerr := s.AcceptMountedStream()
	rt.Assert("a late accept never gets a stream that was closed or is already owned", late == nil && (ldup || lerr != nil))
	rt.Reach("end")
}
