package link_solicit_controller

import (
	"github.com/aperturerobotics/bifrost/link"
	link_solicit "github.com/aperturerobotics/bifrost/link/solicit"
	"github.com/aperturerobotics/bifrost/peer"
	"github.com/aperturerobotics/bifrost/protocol"
	"github.com/sirupsen/logrus"
	rt "github.com/aperturerobotics/bifrost/zz_verifrt"
)

// VerifC31Matches: one incoming stream matches two or three local solicitations for the same protocol
// and context that differ only in their (admitting) peer / transport constraints: however the callers
// accept, the stream gets at most one owner; everyone else is told it was already taken.
func VerifC31Matches() {
	c, err := NewController(logrus.NewEntry(logrus.New()), &Config{})
	rt.Assert("controller", err == nil)
	remote := peer.ID("\x00\x01R")
	ml := &c30Link{remote: remote, tpt: 7}
	ls := &linkState{le: c.le, ml: ml, sessionID: link_solicit.ComputeSessionID(ml.GetLocalPeer(), remote), matched: map[string]struct{}{}}
	pid, ctx := protocol.ID(rt.String("pid", 1, 1)), rt.Bytes("ctx", 0, 1)
	n := 2 + rt.Choose("extra", 2)
	var rhs []*c30RH
	for i := 0; i < n; i++ {
		var pc peer.ID
		var tc uint64
		// constraints that all admit the link, in every combination
		if rt.Choose("peerConstraint", 2) == 1 {
			pc = remote
		}
		if rt.Choose("transportConstraint", 2) == 1 {
			tc = 7
		}
		rh := &c30RH{}
		rhs = append(rhs, rh)
		c.solicitations[&solicitState{dir: link_solicit.NewSolicitProtocol(pid, ctx, pc, tc), handler: rh}] = struct{}{}
	}
	ms := &c30MS{strm: &c30Strm{}, lnk: ml}
	c.resolveMatch(ls, link_solicit.ComputeProtocolHash(ls.sessionID, pid, ctx), ms)
	owners := 0
	for _, rh := range rhs {
		rt.Assert("every matching solicitation is offered the stream once", len(rh.vals) == 1)
		if len(rh.vals) != 1 {
			continue
		}
		sms, ok := rh.vals[0].(link_solicit.SolicitMountedStream)
		rt.Assert("the value is a solicited stream", ok)
		got, dup, aerr := sms.AcceptMountedStream()
		if got != nil {
			owners++
			rt.Assert("the owner gets the incoming stream", got == link.MountedStream(ms) && !dup && aerr == nil)
		} else {
			rt.Assert("a later caller is told the stream was already taken", dup || aerr != nil)
		}
	}
	rt.KnownFinding("C31-one-wrapper-per-matching-solicitation", true)
	rt.Assert("a stream that matches several solicitations has exactly one owner", owners == 1)
	rt.Assert("an owned stream is not closed", ms.strm.closed == 0)
	rt.Reach("end")
}
