package transport_controller

import (
	"io"

	"github.com/aperturerobotics/bifrost/protocol"
	rt "github.com/aperturerobotics/bifrost/zz_verifrt"
)

// c07Reader serves a byte vector; the first `free` reads return an arbitrary admissible count
// (every way of splitting the stream into reads), later reads return as much as fits.
type c07Reader struct {
	data  []byte
	pos   int
	free  int
	reads int
	// eofWithData: the read that delivers the last byte also reports io.EOF (allowed by io.Reader)
	eofWithData bool
}

func (r *c07Reader) Read(p []byte) (int, error) {
	r.reads++
	if len(p) == 0 {
		return 0, nil
	}
	rem := len(r.data) - r.pos
	if rem == 0 {
		return 0, io.EOF
	}
	max := len(p)
	if rem < max {
		max = rem
	}
	k := max
	if r.free > 0 && max > 1 {
		r.free--
		if max <= 4 {
			k = 1 + rt.Choose("chunk", max)
		} else {
			k = []int{1, 2, max - 1, max}[rt.Choose("chunk", 4)]
		}
	}
	copy(p, r.data[r.pos:r.pos+k])
	r.pos += k
	if r.eofWithData && r.pos == len(r.data) {
		return k, io.EOF
	}
	return k, nil
}

type c07Writer struct{ buf []byte }

func (w *c07Writer) Write(p []byte) (int, error) {
	w.buf = append(w.buf, p...)
	return len(p), nil
}

func c07Lens() []int {
	if rt.Tier() > 0 {
		return []int{1, 2, 3, 4, 5, 6, 123, 124, 125, 126, 127, 128, 129, 130, 16378, 16379, 16380, 16381, 16382, 16383, 16384, 16385, 16386, 99994, 99995, 99996, 99997, 99998}
	}
	return []int{1, 2, 5, 124, 125, 126, 127, 128, 16380, 16381, 16382, 16383, 99996, 99997}
}

// VerifC07RoundTrip: a written header is read back as the same protocol id for every chunking of
// the stream, and exactly the header's bytes are consumed (the payload after it stays unread).
func VerifC07RoundTrip() {
	id := rt.StringOfLen("id", c07Lens()...)
	payload := rt.Bytes("payload", 0, 3)
	w := &c07Writer{}
	n, err := writeStreamEstablishHeader(w, NewStreamEstablish(protocol.ID(id)))
	rt.Assert("write succeeds", err == nil && n == len(w.buf))
	hdrLen := len(w.buf)
	// header layout: varint(len(msg)) || msg, msg = 0x0a varint(len(id)) id
	r := &c07Reader{data: append(append([]byte{}, w.buf...), payload...), free: 3, eofWithData: rt.Choose("eofWithLastBytes", 2) == 1}
	rt.KnownFinding("C07-header-final-read-with-eof", r.eofWithData && len(payload) == 0)
	msg, err := readStreamEstablishHeader(r)
	msgLen := hdrLen - 1
	if msgLen > 127 {
		msgLen--
	}
	if msgLen > 16383+1 {
		msgLen--
	}
	// acceptance flips exactly at the configured limit
	if uint64(msgLen) > streamEstablishMaxPacketSize {
		rt.Reach("over limit")
		rt.Assert("header above the limit is rejected", err != nil && msg == nil)
		return
	}
	rt.Reach("within limit")
	rt.Assert("header within the limit is read", err == nil && msg != nil)
	rt.Assert("decoded protocol id equals the written one", msg.GetProtocolId() == id)
	rt.Assert("exactly the header bytes are consumed", r.pos == hdrLen)
	rest, _ := io.ReadAll(r)
	rt.Assert("payload bytes are untouched", rt.BytesEq(rest, payload))
	rt.Reach("end")
}

// c07RefVarint decodes a protobuf varint from at most 4 bytes.
func c07RefVarint(b []byte) (v uint64, n int) {
	for i := 0; i < len(b) && i < 10; i++ {
		v |= uint64(b[i]&0x7f) << (7 * uint(i))
		if b[i] < 0x80 {
			return v, i + 1
		}
	}
	return 0, 0
}

// VerifC07Arbitrary: arbitrary stream bytes yield an error or a message; never a panic, never an
// allocation above the configured limit, never a read beyond what the declared length permits.
func VerifC07Arbitrary() {
	n := 5
	if rt.Tier() > 0 {
		n = 7
	}
	data := rt.Bytes("stream", 0, n)
	rt.AllocLimit(int(streamEstablishMaxPacketSize))
	// bound: declared lengths above 12 cannot be satisfied by the <= 9 available bytes and all take
	// the same path (allocation, then EOF); they are cut here after the allocation-limit obligation
	if len(data) >= 4 {
		v, k := c07RefVarint(data[:4])
		rt.Assume(k == 0 || v <= 12 || v > streamEstablishMaxPacketSize)
	}
	r := &c07Reader{data: data, free: 2, eofWithData: rt.Choose("eofWithLastBytes", 2) == 1}
	msg, err := readStreamEstablishHeader(r)
	if err != nil {
		rt.Reach("rejected")
		rt.Assert("no message on error", msg == nil)
	} else {
		rt.Reach("accepted")
		v, k := c07RefVarint(data[:4])
		rt.Assert("accepted => reference decoder agrees on the length prefix", k > 0 && v > 0)
		rt.Assert("consumed = prefix + declared length, or the 4-byte first read", r.pos == k+int(v) || (k+int(v) < 4 && r.pos == 4))
		rt.Assert("accepted => the stream really held the whole declared header", len(data) >= k+int(v))
	}
	rt.Reach("end")
}
