package transport_controller

import (
	"context"

	"github.com/aperturerobotics/bifrost/link"
	"github.com/aperturerobotics/bifrost/peer"
	"github.com/aperturerobotics/bifrost/protocol"
	"github.com/aperturerobotics/bifrost/stream"
	"github.com/aperturerobotics/controllerbus/directive"
	"github.com/pkg/errors"
	rt "github.com/aperturerobotics/bifrost/zz_verifrt"
)

// c07Bus answers HandleMountedStream lookups: it records the directive and, depending on the mode,
// offers a handler, offers a value that is not a handler, or reports the lookup idle with an error.
type c07Bus struct {
	*tcBus
	mode    int
	lookups []link.HandleMountedStream
	handler *c07Handler
	ref     *tcRef
}

type c07Inst struct {
	*tcInst
	idleCb directive.IdleCallback
}

func (i *c07Inst) AddIdleCallback(cb directive.IdleCallback) func() {
	i.idleCb = cb
	return func() { i.idleCb = nil }
}

type c07Handler struct {
	got    []link.MountedStream
	retErr error
}

func (h *c07Handler) HandleMountedStream(ctx context.Context, ms link.MountedStream) error {
	h.got = append(h.got, ms)
	return h.retErr
}

type c07NotAHandler struct{}

func (b *c07Bus) AddDirective(dir directive.Directive, rh directive.ReferenceHandler) (directive.Instance, directive.Reference, error) {
	hm, ok := dir.(link.HandleMountedStream)
	if !ok {
		return b.tcBus.AddDirective(dir, rh)
	}
	b.lookups = append(b.lookups, hm)
	inst := &c07Inst{tcInst: &tcInst{dir: dir}}
	b.ref = &tcRef{}
	switch b.mode {
	case 0:
		rh.HandleValueAdded(inst, directive.NewAttachedValue(1, link.MountedStreamHandler(b.handler)))
	case 1:
		rh.HandleValueAdded(inst, directive.NewAttachedValue(1, &c07NotAHandler{}))
	case 2:
		rt.Go("idle", func() {
			if inst.idleCb != nil {
				inst.idleCb(true, []error{errors.New("no handler")})
			}
		})
	}
	return inst, b.ref, nil
}

// c07ChunkStream serves the header bytes in arbitrary chunks and records Close.
type c07ChunkStream struct {
	tcStream
	r *c07Reader
}

func (s *c07ChunkStream) Read(p []byte) (int, error) { return s.r.Read(p) }

// VerifC07Dispatch: an incoming stream is dispatched exactly when its header carries a valid protocol
// id; the handler lookup names exactly that id and the link's local and remote peers; every failure
// closes the stream and dispatches nothing.
func VerifC07Dispatch() {
	rt.SchedBound(0, false)
	w := tcNewWorld()
	b := &c07Bus{tcBus: w.b, handler: &c07Handler{}}
	w.c.bus = b
	// the link's local peer is what the link says it is; the transport's own id may differ
	local := tcPeers[rt.Choose("local", 2)]
	remote := tcPeers[1]
	if rt.Tier() > 0 {
		remote = tcPeers[1+rt.Choose("remote", 2)]
	}
	l := w.newLink("in", rt.U64("uuid"), remote)
	l.local = local
	var wire []byte
	valid := false
	var id string
	hdrLen := 0
	idMax, wireMax, free := 2, 4, 1
	if rt.Tier() > 0 {
		idMax, wireMax, free = 2, 5, 2
	}
	switch rt.Choose("header", 3) {
	case 0: // a well-formed header for an arbitrary id (may or may not be a valid protocol id)
		id = rt.String("id", 1, idMax)
		wr := &c07Writer{}
		_, err := writeStreamEstablishHeader(wr, NewStreamEstablish(protocol.ID(id)))
		rt.Assert("write", err == nil)
		hdrLen = len(wr.buf)
		wire = append(wr.buf, rt.Bytes("payload", 0, 2)...)
		valid = protocol.ID(id).Validate() == nil
	case 1: // arbitrary bytes
		wire = rt.Bytes("wire", 0, wireMax)
		if len(wire) >= 4 {
			v, k := c07RefVarint(wire[:4])
			rt.Assume(k == 0 || v <= 8 || v > streamEstablishMaxPacketSize)
		}
	case 2: // a well-formed header cut short
		wr := &c07Writer{}
		_, _ = writeStreamEstablishHeader(wr, NewStreamEstablish(protocol.ID(rt.String("id", 2, 3))))
		wire = wr.buf[:len(wr.buf)-1]
	}
	headerKind := len(id) > 0
	strm := &c07ChunkStream{r: &c07Reader{data: wire, free: free, eofWithData: rt.Choose("eofWithLastBytes", 2) == 1}}
	// the lookup answers with a handler that accepts, a handler that refuses, a non-handler value, or idle+error
	switch rt.Choose("lookup", 4) {
	case 1:
		b.handler.retErr = errors.New("handler refused")
	case 2:
		b.mode = 1
	case 3:
		b.mode = 2
	}
	done := false
	rt.Go("incoming", func() {
		w.c.HandleIncomingStream(w.ctx, w.tpt, l, strm, stream.OpenOpts{})
		done = true
	})
	rt.Quiesce()
	rt.Assert("HandleIncomingStream returns", done)
	if headerKind && !valid {
		rt.Reach("invalid protocol id")
	}
	if !headerKind || !valid {
		if len(b.lookups) == 0 {
			rt.Reach("rejected before dispatch")
			rt.Assert("a stream that is not dispatched is closed", strm.closed > 0)
			rt.Assert("and no handler saw it", len(b.handler.got) == 0)
		}
	}
	if headerKind && !valid {
		rt.Assert("an invalid protocol id is never looked up", len(b.lookups) == 0)
	}
	if headerKind && valid {
		rt.Reach("valid header")
		rt.Assert("a valid header leads to exactly one handler lookup", len(b.lookups) == 1)
	}
	for _, d := range b.lookups {
		rt.Reach("lookup")
		rt.Assert("only a decoded, valid protocol id is looked up", d.HandleMountedStreamProtocolID().Validate() == nil)
		if headerKind {
			rt.Assert("the lookup names the protocol id of the header", string(d.HandleMountedStreamProtocolID()) == id)
		}
		rt.Assert("the lookup names the link's local peer", d.HandleMountedStreamLocalPeerID() == peer.ID(local))
		rt.Assert("the lookup names the link's remote peer", d.HandleMountedStreamRemotePeerID() == peer.ID(remote))
	}
	for _, ms := range b.handler.got {
		rt.Reach("handled")
		rt.Assert("the handler is given the stream of the link's remote peer", ms.GetPeerID() == peer.ID(remote))
		rt.Assert("the handler is given the looked-up protocol id", len(b.lookups) == 1 && ms.GetProtocolID() == b.lookups[0].HandleMountedStreamProtocolID())
		rt.Assert("the handler is given the incoming stream", ms.GetStream() == stream.Stream(strm))
		rt.Assert("the mounted stream's link is the incoming link", ms.GetLink().GetRemotePeer() == peer.ID(remote) && ms.GetLink().GetLocalPeer() == peer.ID(local) && ms.GetLink().GetLinkUUID() == l.uuid)
		if headerKind {
			rt.Assert("bytes after the header are left for the handler", strm.r.pos == hdrLen)
		}
	}
	rt.Assert("at most one handler call", len(b.handler.got) <= 1)
	if len(b.lookups) == 1 {
		switch b.mode {
		case 0:
			rt.Assert("the offered handler is called", len(b.handler.got) == 1)
			if b.handler.retErr != nil {
				rt.Assert("a stream the handler refused is closed", strm.closed > 0)
			} else {
				rt.Assert("a handled stream is left open for the handler", strm.closed == 0)
			}
		case 1, 2:
			rt.Assert("without a usable handler the stream is closed", strm.closed > 0 && len(b.handler.got) == 0)
		}
	}
	rt.Reach("end")
}
