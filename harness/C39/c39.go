package keyfile

import (
	"github.com/aperturerobotics/bifrost/keypem"
	"github.com/aperturerobotics/bifrost/peer"
	rt "github.com/aperturerobotics/bifrost/zz_verifrt"
)

// VerifC39Outcome: for every state of the file system the call returns a usable key or an error.
func VerifC39Outcome() {
	stat := rt.Choose("stat", 3)
	var content []byte
	readFails, writeFails := false, false
	switch stat {
	case 0:
		readFails = rt.Choose("readFails", 2) == 1
		if !readFails {
			switch rt.Choose("content", 3) {
			case 0:
				content = []byte{} // empty file
			case 1:
				content = rt.Bytes("garbage", 1, 3) // not a PEM file
			case 2:
				content = rt.Bytes("pemlike", 40, 40) // long enough to hold a PEM block of any kind
			}
		}
	case 1:
		writeFails = rt.Choose("writeFails", 2) == 1
	}
	path := rt.FSSetup(stat, content, readFails, writeFails)
	rt.KnownFinding("C39-stat-error-nil-nil", stat == 2)
	rt.KnownFinding("C39-no-pem-block-nil-nil", stat == 0 && !readFails)
	key, err := OpenOrWritePrivKey(nil, path)
	rt.Assert("a key or an error, never neither", key != nil || err != nil)
	if stat == 1 && !writeFails {
		rt.Reach("generated")
		rt.Assert("missing file yields a fresh key without error", key != nil && err == nil)
		written := rt.FSWritten()
		rt.Assert("the new key was written", written != nil)
		back, perr := keypem.ParsePrivKeyPem(written)
		rt.Assert("written file parses", perr == nil && back != nil)
		id1, e1 := peer.IDFromPrivateKey(key)
		id2, e2 := peer.IDFromPrivateKey(back)
		rt.Assert("written key has the same peer identity", e1 == nil && e2 == nil && id1 == id2)
		// a second open reads the same identity back
		key2, err2 := OpenOrWritePrivKey(nil, path)
		rt.Assert("re-open succeeds", err2 == nil && key2 != nil)
		id3, e3 := peer.IDFromPrivateKey(key2)
		rt.Assert("re-open yields the same peer identity", e3 == nil && id3 == id1)
	}
	if readFails || writeFails {
		rt.Assert("I/O failure is reported", err != nil)
	}
	if err == nil && key != nil {
		_, e := peer.IDFromPrivateKey(key)
		rt.Assert("returned key is usable", e == nil)
	}
	rt.Reach("end")
}
