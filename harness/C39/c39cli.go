package cli

import (
	ucli "github.com/aperturerobotics/cli"
	rt "github.com/aperturerobotics/bifrost/zz_verifrt"
)

// VerifC39CliKeys: loading the private keys named on the envelope command line: for every state of
// the key file the result is an error or a list of usable (non-nil) keys, never an absent key.
func VerifC39CliKeys() {
	stat := rt.Choose("stat", 3)
	var content []byte
	readFails, writeFails := false, false
	switch stat {
	case 0:
		readFails = rt.Choose("readFails", 2) == 1
		if !readFails {
			switch rt.Choose("content", 3) {
			case 0:
				content = []byte{}
			case 1:
				content = rt.Bytes("garbage", 1, 3)
			case 2:
				content = rt.Bytes("pemlike", 40, 40)
			}
		}
	case 1:
		writeFails = rt.Choose("writeFails", 2) == 1
	}
	path := rt.FSSetup(stat, content, readFails, writeFails)
	a := &EnvelopeArgs{}
	a.KeyPaths = *ucli.NewStringSlice(path)
	keys, err := a.loadPrivKeys()
	if err == nil {
		rt.Reach("loaded")
		rt.Assert("one key per path", len(keys) == 1)
		for _, k := range keys {
			rt.Assert("a loaded key is a key, not an absent one", k != nil)
		}
	} else {
		rt.Reach("error")
		rt.Assert("no keys with an error", keys == nil)
	}
	if readFails {
		rt.Assert("an unreadable file is an error", err != nil)
	}
	rt.Reach("end")
}
