package transport_controller

import (
	"context"
	"time"

	"github.com/aperturerobotics/bifrost/link"
	"github.com/aperturerobotics/bifrost/peer"
	"github.com/aperturerobotics/bifrost/protocol"
	"github.com/aperturerobotics/bifrost/stream"
	"github.com/aperturerobotics/controllerbus/directive"
	rt "github.com/aperturerobotics/bifrost/zz_verifrt"
)

// tcRH is a resolver-handler double that records the values a resolver currently yields.
type tcRH struct {
	directive.ResolverHandler
	vals    map[uint32]directive.Value
	next    uint32
	everAdd int
}

func (h *tcRH) AddValue(v directive.Value) (uint32, bool) {
	if h.vals == nil {
		h.vals = map[uint32]directive.Value{}
	}
	h.next++
	h.vals[h.next] = v
	h.everAdd++
	return h.next, true
}
func (h *tcRH) RemoveValue(id uint32) (directive.Value, bool) {
	v, ok := h.vals[id]
	delete(h.vals, id)
	return v, ok
}
func (h *tcRH) CountValues(all bool) int { return len(h.vals) }
func (h *tcRH) ClearValues() []uint32 {
	var ids []uint32
	for id := range h.vals {
		ids = append(ids, id)
	}
	h.vals = nil
	return ids
}
func (h *tcRH) MarkIdle(idle bool)                                 {}
func (h *tcRH) AddValueRemovedCallback(id uint32, cb func()) func() { return func() {} }
func (h *tcRH) AddResolverRemovedCallback(cb func()) func()         { return func() {} }

// c04Check asserts that every value currently yielded is a link between src and dst (C04); with
// strict it also asserts that the yielded set is exactly the set of live links to dst (C06: a lost
// link is never reported again, every established link is reported).
func c04Check(tag string, w *tcWorld, rh *tcRH, src, dst peer.ID, strict bool) {
	n := 0
	for _, v := range rh.vals {
		n++
		ml, ok := v.(link.MountedLink)
		rt.Assert(tag+": a yielded value is a mounted link", ok)
		if !ok {
			continue
		}
		rt.Assert(tag+": a yielded link's remote peer is the requested target", ml.GetRemotePeer() == dst)
		rt.Assert(tag+": a yielded link's local peer is the requested source", src == "" || ml.GetLocalPeer() == src)
		rt.Assert(tag+": a link to the local peer itself is never yielded", ml.GetRemotePeer() != w.c.peerID)
		known := 0
		for _, g := range w.everIn {
			if g.uuid == ml.GetLinkUUID() && g.remote == ml.GetRemotePeer() {
				known++
			}
		}
		rt.Assert(tag+": a yielded link is one the transport reported as established", known > 0)
		if strict {
			live := 0
			for _, g := range w.ghost {
				if g.uuid == ml.GetLinkUUID() && g.remote == ml.GetRemotePeer() {
					live++
				}
			}
			rt.Assert(tag+": a yielded link is one that is currently established", live == 1)
		}
	}
	if strict {
		want := 0
		for _, g := range w.ghost {
			if g.remote == dst {
				want++
			}
		}
		rt.Assert(tag+": exactly the live links to the target are yielded", n == want)
	}
}

// VerifC04Resolve: for every table state, every EstablishLinkWithPeer request (empty / own / foreign
// source, any target) and one further link event, the request yields exactly the links between the
// requested peers.
func VerifC04Resolve() { c04Resolve(false) }

func c04Resolve(strict bool) {
	max := 2
	if rt.Tier() > 0 {
		max = 3
	}
	rt.SchedBound(0, false)
	w := tcNewWorld()
	tcPreState(w, max)
	// index 0..3: universe (0 = the controller's own peer), 4: empty
	var dst peer.ID
	if k := rt.Choose("target", 5); k < 4 {
		dst = tcPeers[k]
	}
	var src peer.ID
	switch rt.Choose("source", 3) {
	case 1:
		src = tcPeers[0]
	case 2:
		src = tcPeers[1] // a peer that is not this transport's identity
	}
	dir := link.NewEstablishLinkWithPeer(src, dst)
	di := &tcInst{dir: dir}
	ctx, cancel := context.WithCancel(w.ctx)
	var res []directive.Resolver
	if rt.Choose("via", 2) == 0 {
		var err error
		res, err = w.c.HandleDirective(ctx, di)
		rt.Assert("HandleDirective does not fail", err == nil)
		if dst == "" {
			rt.Assert("a request without a target is not resolved", len(res) == 0)
		}
	} else if dst != "" {
		// the resolver as it is returned when the controller's lock was busy in resolveEstablishLink
		res = []directive.Resolver{&establishLinkResolver{c: w.c, ctx: ctx, di: di, dir: dir}}
	}
	rh := &tcRH{}
	if len(res) == 0 {
		rt.Reach("not resolved")
		cancel()
		return
	}
	rt.Assert("one resolver", len(res) == 1)
	var rerr error
	done := false
	rt.Go("resolve", func() {
		rerr = res[0].Resolve(ctx, rh)
		done = true
	})
	rt.Quiesce()
	if src != "" && src != tcPeers[0] {
		rt.Reach("foreign source")
		rt.Assert("a request for another source peer yields nothing from this transport", rh.everAdd == 0)
		rt.Assert("and the resolver ends", done && rerr == nil)
		cancel()
		return
	}
	rt.Assert("the resolver keeps watching", !done)
	c04Check("initial", w, rh, src, dst, strict)
	tcStep(w, "ev")
	rt.Quiesce()
	c04Check("after event", w, rh, src, dst, strict)
	if rt.Tier() > 0 {
		tcStep(w, "ev2")
		rt.Quiesce()
		c04Check("after second event", w, rh, src, dst, strict)
	}
	if src == "" {
		found := false
		for _, d := range w.b.added {
			if e, ok := d.(link.EstablishLinkWithPeer); ok && e.EstablishLinkSourcePeerId() == tcPeers[0] && e.EstablishLinkTargetPeerId() == dst {
				found = true
			}
		}
		rt.Assert("a source-less request is re-issued for this transport's own peer and the same target", found)
	}
	cancel()
	rt.Quiesce()
	rt.Assert("cancellation ends the resolver", done)
	rt.Reach("end")
}

// ---- streams

type tcStream struct {
	stream.Stream
	rd     []byte
	wr     []byte
	closed int
}

func (s *tcStream) Read(p []byte) (int, error) {
	n := copy(p, s.rd)
	s.rd = s.rd[n:]
	return n, nil
}
func (s *tcStream) Write(p []byte) (int, error) {
	s.wr = append(s.wr, p...)
	return len(p), nil
}
func (s *tcStream) Close() error                       { s.closed++; return nil }
func (s *tcStream) SetReadDeadline(t time.Time) error  { return nil }
func (s *tcStream) SetWriteDeadline(t time.Time) error { return nil }
func (s *tcStream) SetDeadline(t time.Time) error      { return nil }

type tcStreamLink struct {
	*tcLink
	strm *tcStream
}

func (l *tcStreamLink) OpenStream(opts stream.OpenOpts) (stream.Stream, error) { return l.strm, nil }

// VerifC04StreamPeer: a stream opened on a yielded link reports that link's remote peer, carries the
// requested protocol id, and the header written is the one the receiving side decodes.
func VerifC04StreamPeer() {
	rt.SchedBound(0, false)
	w := tcNewWorld()
	remote := tcPeers[1+rt.Choose("peer", 3)]
	l := &tcStreamLink{tcLink: w.newLink("l", rt.U64("uuid"), remote), strm: &tcStream{}}
	ml := newMountedLink(w.c, w.tpt, l)
	pid := protocol.ID(rt.String("pid", 1, 3))
	ms, err := ml.OpenMountedStream(w.ctx, pid, stream.OpenOpts{})
	rt.Assert("open succeeds", err == nil && ms != nil)
	rt.Assert("the stream's peer is the link's remote peer", ms.GetPeerID() == remote)
	rt.Assert("the stream names the requested protocol", ms.GetProtocolID() == pid)
	rt.Assert("the stream belongs to the link it was opened on", ms.GetLink().GetLinkUUID() == l.uuid && ms.GetLink().GetRemotePeer() == remote)
	rt.Assert("the stream is the one the link opened", ms.GetStream() == stream.Stream(l.strm))
	l.strm.rd = l.strm.wr
	hdr, err := readStreamEstablishHeader(l.strm)
	rt.Assert("the header written decodes to the protocol id", err == nil && hdr.GetProtocolId() == string(pid))
	rt.Reach("end")
}
