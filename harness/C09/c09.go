package rwc

import (
	"context"
	"io"

	rt "github.com/aperturerobotics/bifrost/zz_verifrt"
)

// c09Src serves a byte vector in arbitrary chunks and records the chunk boundaries.
type c09Src struct {
	data   []byte
	pos    int
	chunks [][]byte
	endErr error
}

func (r *c09Src) Read(p []byte) (int, error) {
	rem := len(r.data) - r.pos
	if rem == 0 {
		return 0, r.endErr
	}
	max := rem
	if len(p) < max {
		max = len(p)
	}
	k := 1 + rt.Choose("chunk", max)
	copy(p, r.data[r.pos:r.pos+k])
	r.chunks = append(r.chunks, r.data[r.pos:r.pos+k])
	r.pos += k
	// a reader may deliver the final bytes together with the error
	if r.pos == len(r.data) && rt.Choose("errWithData", 2) == 1 {
		return k, r.endErr
	}
	return k, nil
}
func (r *c09Src) Write(p []byte) (int, error) { return len(p), nil }
func (r *c09Src) Close() error                { return nil }

var c09ErrBroken = io.ErrClosedPipe

// VerifC09Read: bytes are delivered in order without loss; bytes are skipped only by a Read that
// reported io.ErrShortBuffer; after the end the underlying error (or io.EOF) is returned.
func VerifC09Read() {
	n := 4
	if rt.Tier() > 0 {
		n = 6
	}
	src := &c09Src{data: rt.Bytes("src", 0, n), endErr: io.EOF}
	if rt.Choose("enderr", 2) == 1 {
		src.endErr = c09ErrBroken
	}
	c := &Conn{ctx: context.Background(), rwc: src, packetCh: make(chan []byte, 16)}
	perr := c.rxPump()
	rt.Assert("pump ends with the source's error", perr == src.endErr)
	for i, ch := range src.chunks {
		bl := rt.Choose("buflen", 4)
		b := make([]byte, bl)
		got, err := c.Read(b)
		want := len(ch)
		if bl < want {
			rt.Assert("short buffer is reported", err == io.ErrShortBuffer && got == bl)
			want = bl
		} else {
			rt.Assert("full packet without error", err == nil && got == len(ch))
		}
		rt.Assert("bytes are the next unread source bytes in order", rt.BytesEq(b[:want], ch[:want]))
		_ = i
	}
	got, err := c.Read(make([]byte, 2))
	rt.Assert("after the end: no data", got == 0)
	rt.Assert("after the end: the underlying error, or io.EOF", err == src.endErr)
	rt.Reach("end")
}

// c09Sink accepts arbitrary short writes and may fail at an arbitrary point.
type c09Sink struct {
	buf    []byte
	failAt int
	calls  int
}

func (w *c09Sink) Read(p []byte) (int, error) { return 0, io.EOF }
func (w *c09Sink) Close() error               { return nil }
func (w *c09Sink) Write(p []byte) (int, error) {
	w.calls++
	if w.calls == w.failAt {
		k := rt.Choose("partial", len(p)+1)
		w.buf = append(w.buf, p[:k]...)
		return k, c09ErrBroken
	}
	k := 1 + rt.Choose("short", len(p))
	w.buf = append(w.buf, p[:k]...)
	return k, nil
}

// VerifC09Write: Write loops until every byte is written for every short-write pattern, and on
// error reports exactly how many bytes went out.
func VerifC09Write() {
	n := 3
	if rt.Tier() > 0 {
		n = 5
	}
	data := rt.Bytes("data", 0, n)
	sink := &c09Sink{failAt: rt.Choose("failAt", 4)}
	c := &Conn{ctx: context.Background(), rwc: sink, packetCh: make(chan []byte, 1)}
	wn, err := c.Write(data)
	rt.Assert("reported count equals bytes handed to the underlying writer", wn == len(sink.buf))
	rt.Assert("bytes went out in order", rt.BytesEq(sink.buf, data[:len(sink.buf)]))
	if err == nil {
		rt.Assert("no error => everything written", wn == len(data))
	} else {
		rt.Reach("write error")
	}
	rt.Reach("end")
}

// c09Chunks serves a fixed list of chunks, one per Read (each at most the pump's buffer size).
type c09Chunks struct {
	chunks [][]byte
	i      int
}

func (r *c09Chunks) Read(p []byte) (int, error) {
	if r.i >= len(r.chunks) {
		return 0, io.EOF
	}
	n := copy(p, r.chunks[r.i])
	r.i++
	return n, nil
}
func (r *c09Chunks) Write(p []byte) (int, error) { return len(p), nil }
func (r *c09Chunks) Close() error                { return nil }

// VerifC09LargeReads: a reader that lags (several chunks are queued) and reads with large buffers — at,
// above and well above the connection's chunk size — gets every byte the peer wrote, in order, unless a
// Read reported io.ErrShortBuffer.
func VerifC09LargeReads() {
	sizes := []int{1500, 600, connPktSize}
	var src c09Chunks
	var all []byte
	nch := 2 + rt.Choose("chunks", 2)
	for i := 0; i < nch; i++ {
		sz := sizes[rt.Choose("chunkSize", len(sizes))]
		ch := rt.Bytes("chunk", sz, sz)
		src.chunks = append(src.chunks, ch)
		all = append(all, ch...)
	}
	c := &Conn{ctx: context.Background(), rwc: &src, packetCh: make(chan []byte, 16)}
	perr := c.rxPump()
	rt.Assert("pump ends with EOF", perr == io.EOF)
	bl := []int{connPktSize, connPktSize + 952, 2 * connPktSize}[rt.Choose("buflen", 3)]
	var out []byte
	short := false
	for k := 0; k < 2*nch+2; k++ {
		b := make([]byte, bl)
		n, err := c.Read(b)
		out = append(out, b[:n]...)
		if err == io.ErrShortBuffer {
			short = true
			continue
		}
		if err != nil {
			rt.Assert("the stream ends with io.EOF", err == io.EOF && n == 0)
			break
		}
	}
	rt.Assert("no short buffer with buffers of at least the chunk size", !short)
	rt.Assert("every byte the peer wrote is read, in order", len(out) == len(all) && rt.BytesEq(out, all))
	rt.Reach("end")
}
