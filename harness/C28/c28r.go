package floodsub

import (
	"context"
	"crypto/ed25519"
	"encoding/binary"
	"io"

	"github.com/aperturerobotics/bifrost/crypto"
	"github.com/aperturerobotics/bifrost/stream"
	stream_packet "github.com/aperturerobotics/bifrost/stream/packet"

	"github.com/aperturerobotics/bifrost/hash"
	"github.com/aperturerobotics/bifrost/peer"
	"github.com/aperturerobotics/bifrost/pubsub"
	"github.com/aperturerobotics/bifrost/pubsub/util/pubmessage"
	rt "github.com/aperturerobotics/bifrost/zz_verifrt"
)

// VerifC28Relay: a message from publisher C arrives from neighbour P on one of two links to P; the
// node's router (the real Execute loop) forwards it: never back to P on any link, never to C, exactly
// once to every other peer subscribed to the channel, and to nobody else. Driven only through the
// stream handler's publish entry point and the router loop (no internal signatures).
func VerifC28Relay() {
	rt.SchedBound(0, false)
	m := c27Node([]string{"x"}) // a node relays the channels it subscribes to
	ctx, cancel := context.WithCancel(context.Background())
	sk, _, _ := c27Key("seed")
	msg, _, err := pubmessage.NewPubMessage("x", sk, hash.HashType_HashType_SHA256, []byte{1})
	rt.Assert("message", err == nil)
	publisher, err := peer.IDB58Decode(msg.GetFromPeerId())
	rt.Assert("publisher id", err == nil)
	P, Q := peer.ID("\x00\x01P"), peer.ID("\x00\x01Q")
	mk := func(p peer.ID, link uint64, sub bool) *streamHandler {
		s := &streamHandler{m: m, le: m.le, packetCh: make(chan *Packet, 8), ctx: ctx, peerID: p, tpl: pubsub.PeerLinkTuple{PeerID: p, LinkID: link}}
		m.peers[s.tpl] = s
		if sub {
			if m.peerChannels["x"] == nil {
				m.peerChannels["x"] = make(map[pubsub.PeerLinkTuple]struct{})
			}
			m.peerChannels["x"][s.tpl] = struct{}{}
		}
		return s
	}
	p1 := mk(P, 1, rt.Choose("p1Subscribed", 2) == 1)
	p2 := mk(P, 2, true)
	q := mk(Q, 3, rt.Choose("qSubscribed", 2) == 1)
	qSub := false
	if _, ok := m.peerChannels["x"][q.tpl]; ok {
		qSub = true
	}
	cs := mk(publisher, 4, rt.Choose("publisherConnected", 2) == 1)
	rt.Go("router", func() { _ = m.Execute(ctx) })
	rt.Quiesce()
	c29Drain := func(s *streamHandler) int {
		n := 0
		for {
			select {
			case pk := <-s.packetCh:
				n += len(pk.GetPublish())
			default:
				return n
			}
		}
	}
	// the message arrives from P on link 1
	p1.handlePublish([]*peer.SignedMsg{msg})
	rt.Quiesce()
	rt.Assert("not echoed on the link it arrived on", c29Drain(p1) == 0)
	rt.Assert("not sent back to the previous hop on its other link", c29Drain(p2) == 0)
	rt.Assert("not sent to its original publisher", c29Drain(cs) == 0)
	nq := c29Drain(q)
	if qSub {
		rt.Assert("forwarded exactly once to another subscribed peer", nq == 1)
	} else {
		rt.Assert("not forwarded to a peer that did not subscribe", nq == 0)
	}
	// the same message arriving again (from Q) is not forwarded a second time
	q.handlePublish([]*peer.SignedMsg{msg})
	rt.Quiesce()
	rt.Assert("a duplicate is not forwarded again", c29Drain(p1)+c29Drain(p2)+c29Drain(q)+c29Drain(cs) == 0)
	cancel()
	rt.Quiesce()
	rt.Reach("end")
}

type c28Wire struct {
	stream.Stream
	wr     []byte
	closed bool
	hold   chan struct{}
}

func (w *c28Wire) Write(p []byte) (int, error) {
	w.wr = append(w.wr, p...)
	return len(p), nil
}
func (w *c28Wire) Read(p []byte) (int, error) {
	<-w.hold
	return 0, io.EOF
}
func (w *c28Wire) Close() error { w.closed = true; return nil }

// c28Announced decodes the packets written to a session's stream and returns the channels the node
// currently claims to subscribe to (Subscribe=true minus Subscribe=false, in order).
func c28Announced(w *c28Wire) map[string]bool {
	out := map[string]bool{}
	b := w.wr
	for len(b) >= 4 {
		n := int(binary.LittleEndian.Uint32(b))
		if len(b) < 4+n {
			break
		}
		pk := &Packet{}
		if err := pk.UnmarshalVT(b[4 : 4+n]); err == nil {
			for _, so := range pk.GetSubscriptions() {
				if so.GetSubscribe() {
					out[so.GetChannelId()] = true
				} else {
					delete(out, so.GetChannelId())
				}
			}
		}
		b = b[4+n:]
	}
	return out
}

// VerifC28NewSession: a peer session established at any point — before or after the node subscribed —
// is told the node's current subscriptions, so that messages for them are flooded to the node.
func VerifC28NewSession() {
	rt.SchedBound(0, false)
	m := c27Node(nil)
	ctx, cancel := context.WithCancel(context.Background())
	rt.Go("router", func() { _ = m.Execute(ctx) })
	rt.Quiesce()
	var wires []*c28Wire
	addSession := func(link uint64) {
		w := &c28Wire{hold: make(chan struct{})}
		wires = append(wires, w)
		s := &streamHandler{m: m, le: m.le, packetCh: make(chan *Packet, 32), peerID: "\x00\x01P",
			tpl: pubsub.PeerLinkTuple{PeerID: "\x00\x01P", LinkID: link}, stream: stream_packet.NewSession(w, maxMessageSize)}
		m.mtx.Lock()
		m.peers[s.tpl] = s
		m.incSessions = append(m.incSessions, s)
		m.mtx.Unlock()
		m.wake()
		rt.Quiesce()
		rt.FireTickers()
		rt.Quiesce()
	}
	subscribed := false
	subscribe := func() {
		_, err := m.AddSubscription(ctx, c28PrivKey(), "x")
		rt.Assert("subscribe", err == nil)
		subscribed = true
		rt.Quiesce()
		rt.FireTickers()
		rt.Quiesce()
	}
	link := uint64(1)
	n := rt.IntRange("steps", 2, 3)
	for i := 0; i < n; i++ {
		if !subscribed && rt.Choose("step", 2) == 1 {
			subscribe()
		} else {
			addSession(link)
			link++
		}
	}
	if !subscribed {
		subscribe()
	}
	rt.Assert("at least one session", len(wires) > 0)
	for _, w := range wires {
		rt.Assert("every session, whenever it was established, has been told the node's subscription", c28Announced(w)["x"])
	}
	cancel()
	for _, w := range wires {
		close(w.hold)
	}
	rt.Quiesce()
	rt.Reach("end")
}

// VerifC28Resubscribe: the node subscribes, releases its last subscription and subscribes again while
// its sessions stay up (with or without a router sweep in between): every existing session ends up
// told that the node subscribes, so the channel's messages keep being flooded to it.
func VerifC28Resubscribe() {
	rt.SchedBound(0, false)
	m := c27Node(nil)
	ctx, cancel := context.WithCancel(context.Background())
	rt.Go("router", func() { _ = m.Execute(ctx) })
	rt.Quiesce()
	var wires []*c28Wire
	link := uint64(1)
	addSession := func() {
		w := &c28Wire{hold: make(chan struct{})}
		wires = append(wires, w)
		s := &streamHandler{m: m, le: m.le, packetCh: make(chan *Packet, 32), peerID: "\x00\x01P",
			tpl: pubsub.PeerLinkTuple{PeerID: "\x00\x01P", LinkID: link}, stream: stream_packet.NewSession(w, maxMessageSize)}
		link++
		m.mtx.Lock()
		m.peers[s.tpl] = s
		m.incSessions = append(m.incSessions, s)
		m.mtx.Unlock()
		m.wake()
	}
	settle := func() {
		rt.Quiesce()
		rt.FireTickers()
		rt.Quiesce()
	}
	if rt.Choose("sessionFirst", 2) == 1 {
		addSession()
		settle()
	}
	sub, err := m.AddSubscription(ctx, c28PrivKey(), "x")
	rt.Assert("subscribe", err == nil)
	settle()
	if len(wires) == 0 {
		addSession()
		settle()
	}
	for _, w := range wires {
		rt.Assert("told about the first subscription", c28Announced(w)["x"])
	}
	sub.Release()
	if rt.Choose("sweepBetween", 2) == 1 {
		settle()
		rt.Reach("unsubscribe swept")
	}
	_, err = m.AddSubscription(ctx, c28PrivKey(), "x")
	rt.Assert("subscribe again", err == nil)
	settle()
	for _, w := range wires {
		rt.Assert("after re-subscribing every existing session is told the node subscribes", c28Announced(w)["x"])
	}
	cancel()
	for _, w := range wires {
		close(w.hold)
	}
	rt.Quiesce()
	rt.Reach("end")
}

// VerifC28LocalPublish: a message published locally (signed by a key other than the node's transport
// identity) is handed to the local subscription once and flooded once; when a neighbour that heard it
// on another path relays it back, it is neither handed to the local subscription again nor re-flooded.
func VerifC28LocalPublish() {
	rt.SchedBound(0, false)
	m := c27Node([]string{"x"})
	ctx, cancel := context.WithCancel(context.Background())
	sk, _, _ := c27Key("seed")
	P, Q := peer.ID("\x00\x01P"), peer.ID("\x00\x01Q")
	mk := func(p peer.ID, link uint64) *streamHandler {
		s := &streamHandler{m: m, le: m.le, packetCh: make(chan *Packet, 8), ctx: ctx, peerID: p, tpl: pubsub.PeerLinkTuple{PeerID: p, LinkID: link}}
		m.peers[s.tpl] = s
		if m.peerChannels["x"] == nil {
			m.peerChannels["x"] = make(map[pubsub.PeerLinkTuple]struct{})
		}
		m.peerChannels["x"][s.tpl] = struct{}{}
		return s
	}
	p, q := mk(P, 1), mk(Q, 2)
	rt.Go("router", func() { _ = m.Execute(ctx) })
	rt.Quiesce()
	err := m.Publish(ctx, "x", sk, []byte{1})
	rt.Assert("publish", err == nil)
	rt.Quiesce()
	rt.Assert("the local subscription sees the local publish once", rt.LogLen("delivered:x") == 1)
	var relayed []*peer.SignedMsg
	np := 0
	for len(p.packetCh) > 0 {
		pk := <-p.packetCh
		np += len(pk.GetPublish())
		relayed = append(relayed, pk.GetPublish()...)
	}
	nq := 0
	for len(q.packetCh) > 0 {
		pk := <-q.packetCh
		nq += len(pk.GetPublish())
	}
	rt.Assert("flooded once to each subscribed neighbour", np == 1 && nq == 1)
	// Q heard it from P and relays it back to us
	q.handlePublish(relayed)
	rt.Quiesce()
	rt.Assert("a relayed-back local publish is not handed to the local subscription again", rt.LogLen("delivered:x") == 1)
	rt.Assert("a relayed-back local publish is not flooded again", len(p.packetCh)+len(q.packetCh) == 0)
	cancel()
	rt.Quiesce()
	rt.Reach("end")
}

func c28PrivKey() crypto.PrivKey {
	seed := make([]byte, 32)
	seed[0] = 3
	std := ed25519.NewKeyFromSeed(seed)
	k, _, err := crypto.KeyPairFromStdKey(&std)
	if err != nil {
		panic(err)
	}
	return k
}
