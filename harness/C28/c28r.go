package floodsub

import (
	"context"

	"github.com/aperturerobotics/bifrost/hash"
	"github.com/aperturerobotics/bifrost/peer"
	"github.com/aperturerobotics/bifrost/pubsub"
	"github.com/aperturerobotics/bifrost/pubsub/util/pubmessage"
	rt "github.com/aperturerobotics/bifrost/zz_verifrt"
)

// VerifC28Relay: a message from publisher C arrives from neighbour P on one of two links to P; the
// node's router (the real Execute loop) forwards it: never back to P on any link, never to C, exactly
// once to every other peer subscribed to the channel, and to nobody else. Driven only through the
// stream handler's publish entry point and the router loop (no internal signatures).
func VerifC28Relay() {
	rt.SchedBound(0, false)
	m := c27Node([]string{"x"}) // a node relays the channels it subscribes to
	ctx, cancel := context.WithCancel(context.Background())
	sk, _, _ := c27Key("seed")
	msg, _, err := pubmessage.NewPubMessage("x", sk, hash.HashType_HashType_SHA256, []byte{1})
	rt.Assert("message", err == nil)
	publisher, err := peer.IDB58Decode(msg.GetFromPeerId())
	rt.Assert("publisher id", err == nil)
	P, Q := peer.ID("\x00\x01P"), peer.ID("\x00\x01Q")
	mk := func(p peer.ID, link uint64, sub bool) *streamHandler {
		s := &streamHandler{m: m, le: m.le, packetCh: make(chan *Packet, 8), ctx: ctx, peerID: p, tpl: pubsub.PeerLinkTuple{PeerID: p, LinkID: link}}
		m.peers[s.tpl] = s
		if sub {
			if m.peerChannels["x"] == nil {
				m.peerChannels["x"] = make(map[pubsub.PeerLinkTuple]struct{})
			}
			m.peerChannels["x"][s.tpl] = struct{}{}
		}
		return s
	}
	p1 := mk(P, 1, rt.Choose("p1Subscribed", 2) == 1)
	p2 := mk(P, 2, true)
	q := mk(Q, 3, rt.Choose("qSubscribed", 2) == 1)
	qSub := false
	if _, ok := m.peerChannels["x"][q.tpl]; ok {
		qSub = true
	}
	cs := mk(publisher, 4, rt.Choose("publisherConnected", 2) == 1)
	rt.Go("router", func() { _ = m.Execute(ctx) })
	rt.Quiesce()
	c29Drain := func(s *streamHandler) int {
		n := 0
		for {
			select {
			case pk := <-s.packetCh:
				n += len(pk.GetPublish())
			default:
				return n
			}
		}
	}
	// the message arrives from P on link 1
	p1.handlePublish([]*peer.SignedMsg{msg})
	rt.Quiesce()
	rt.Assert("not echoed on the link it arrived on", c29Drain(p1) == 0)
	rt.Assert("not sent back to the previous hop on its other link", c29Drain(p2) == 0)
	rt.Assert("not sent to its original publisher", c29Drain(cs) == 0)
	nq := c29Drain(q)
	if qSub {
		rt.Assert("forwarded exactly once to another subscribed peer", nq == 1)
	} else {
		rt.Assert("not forwarded to a peer that did not subscribe", nq == 0)
	}
	// the same message arriving again (from Q) is not forwarded a second time
	q.handlePublish([]*peer.SignedMsg{msg})
	rt.Quiesce()
	rt.Assert("a duplicate is not forwarded again", c29Drain(p1)+c29Drain(p2)+c29Drain(q)+c29Drain(cs) == 0)
	cancel()
	rt.Quiesce()
	rt.Reach("end")
}
