package floodsub

import (
	"context"

	"github.com/aperturerobotics/bifrost/hash"
	"github.com/aperturerobotics/bifrost/peer"
	"github.com/aperturerobotics/bifrost/pubsub"
	"github.com/aperturerobotics/bifrost/pubsub/util/pubmessage"
	rt "github.com/aperturerobotics/bifrost/zz_verifrt"
)

var c28Peers = []peer.ID{peer.ID("\x00\x01A"), peer.ID("\x00\x01B"), peer.ID("\x00\x01C")}

func c28Tuple(i int) pubsub.PeerLinkTuple { return pubsub.PeerLinkTuple{PeerID: c28Peers[i], LinkID: uint64(10 + i)} }

// VerifC28Forward: execPublish writes the packet to exactly the peers that subscribed to the
// channel and have a stream, except the original publisher and the previous hop - once each.
func VerifC28Forward() {
	m := c27Node(nil)
	subscribed := make([]bool, 3)
	hasStream := make([]bool, 3)
	otherChan := make([]bool, 3)
	handlers := make([]*streamHandler, 3)
	for i := 0; i < 3; i++ {
		subscribed[i] = rt.Choose("subscribed", 2) == 1
		hasStream[i] = rt.Choose("hasStream", 2) == 1
		otherChan[i] = rt.Choose("subscribedOther", 2) == 1
		if subscribed[i] {
			if m.peerChannels["x"] == nil {
				m.peerChannels["x"] = make(map[pubsub.PeerLinkTuple]struct{})
			}
			m.peerChannels["x"][c28Tuple(i)] = struct{}{}
		}
		if otherChan[i] {
			if m.peerChannels["y"] == nil {
				m.peerChannels["y"] = make(map[pubsub.PeerLinkTuple]struct{})
			}
			m.peerChannels["y"][c28Tuple(i)] = struct{}{}
		}
		if hasStream[i] {
			handlers[i] = &streamHandler{m: m, tpl: c28Tuple(i), peerID: c28Peers[i], packetCh: make(chan *Packet, 4), ctx: context.Background()}
			m.peers[c28Tuple(i)] = handlers[i]
		}
	}
	origin := rt.Choose("origin", 4)  // 3 = a publisher that is not a neighbour
	prevHop := rt.Choose("prevHop", 4) // 3 = local publish
	from := "someone-else"
	if origin < 3 {
		from = c28Peers[origin].String()
	}
	prev := peer.ID("\x00\x01L")
	if prevHop < 3 {
		prev = c28Peers[prevHop]
	}
	msg := &peer.SignedMsg{FromPeerId: from, Data: []byte{1}}
	m.execPublish(prev, &publishChMsg{msg: msg, prevHopPeer: prev, channelID: "x"})
	for i := 0; i < 3; i++ {
		want := subscribed[i] && hasStream[i] && i != origin && i != prevHop
		got := 0
		if handlers[i] != nil {
			got = len(handlers[i].packetCh)
		}
		if want {
			rt.Assert("subscribed neighbour with a stream receives the message once", got == 1)
			pkt := <-handlers[i].packetCh
			rt.Assert("the forwarded packet carries exactly the message", len(pkt.GetPublish()) == 1 && pkt.GetPublish()[0] == msg && len(pkt.GetSubscriptions()) == 0)
		} else {
			rt.Assert("nobody else receives it (non-subscriber, origin, previous hop)", got == 0)
		}
	}
	rt.Reach("end")
}

// VerifC28Once: the same message handled twice (two neighbours relay it) reaches each local
// handler once and is forwarded once.
func VerifC28Once() {
	m := c27Node([]string{"x"})
	sk, _, _ := c27Key("seed")
	msg, inner, err := pubmessage.NewPubMessage("x", sk, hash.HashType_HashType_SHA256, rt.Bytes("data", 1, 1))
	rt.Assert("message", err == nil)
	times := rt.IntRange("times", 1, 3)
	for i := 0; i < times; i++ {
		m.handleValidMessage(context.Background(), c28Peers[i%3], msg, inner)
	}
	rt.Quiesce()
	rt.Assert("each handler sees the message exactly once", rt.LogLen("delivered:x") == 1)
	rt.Assert("forwarded exactly once", len(m.publishCh) == 1)
	rt.Reach("end")
}

// VerifC28Subscriptions: a neighbour's subscription packet is the exact set update.
func VerifC28Subscriptions() {
	m := c27Node(nil)
	me := c28Tuple(0)
	other := c28Tuple(1)
	pre := map[string]bool{}
	for _, ch := range []string{"x", "y"} {
		if rt.Choose("preMe", 2) == 1 {
			pre[ch] = true
			if m.peerChannels[ch] == nil {
				m.peerChannels[ch] = make(map[pubsub.PeerLinkTuple]struct{})
			}
			m.peerChannels[ch][me] = struct{}{}
		}
		if rt.Choose("preOther", 2) == 1 {
			if m.peerChannels[ch] == nil {
				m.peerChannels[ch] = make(map[pubsub.PeerLinkTuple]struct{})
			}
			m.peerChannels[ch][other] = struct{}{}
		}
	}
	otherX, otherY := false, false
	if tm := m.peerChannels["x"]; tm != nil {
		_, otherX = tm[other]
	}
	if tm := m.peerChannels["y"]; tm != nil {
		_, otherY = tm[other]
	}
	s := &streamHandler{m: m, le: m.le, tpl: me, peerID: me.PeerID, ctx: context.Background()}
	n := rt.IntRange("ops", 1, 2)
	want := map[string]bool{"x": pre["x"], "y": pre["y"]}
	var ops []*SubscriptionOpts
	for i := 0; i < n; i++ {
		ch := []string{"x", "y", ""}[rt.Choose("channel", 3)]
		sub := rt.Choose("subscribe", 2) == 1
		ops = append(ops, &SubscriptionOpts{ChannelId: ch, Subscribe: sub})
		if ch != "" {
			want[ch] = sub
		}
	}
	s.handleSubscriptions(ops)
	for _, ch := range []string{"x", "y"} {
		got := false
		if tm := m.peerChannels[ch]; tm != nil {
			_, got = tm[me]
			rt.Assert("no empty channel entry is kept", len(tm) > 0)
		}
		rt.Assert("the neighbour's subscription state is exactly the last request per channel", got == want[ch])
	}
	nowX, nowY := false, false
	if tm := m.peerChannels["x"]; tm != nil {
		_, nowX = tm[other]
	}
	if tm := m.peerChannels["y"]; tm != nil {
		_, nowY = tm[other]
	}
	rt.Assert("other neighbours' subscriptions are untouched", nowX == otherX && nowY == otherY)
	rt.Reach("end")
}

