package webrtc

import (
	"context"
	"crypto/ed25519"

	"github.com/aperturerobotics/bifrost/crypto"
	"github.com/aperturerobotics/bifrost/peer"
	"github.com/pion/datachannel"
	"github.com/sirupsen/logrus"
	rt "github.com/aperturerobotics/bifrost/zz_verifrt"
)

// VerifC26Roles: for any two distinct peer id strings exactly one side is the offerer; equal ids
// make neither the offerer.
func VerifC26Roles() {
	n := 3
	if rt.Tier() > 0 {
		n = 4
	}
	a, b := rt.String("a", 0, n), rt.String("b", 0, n)
	ab, ba := isOfferer(a, b), isOfferer(b, a)
	if a == b {
		rt.Reach("equal")
		rt.Assert("equal ids: neither side offers", !ab && !ba)
	} else {
		rt.Reach("distinct")
		rt.Assert("distinct ids: exactly one side offers", ab != ba)
	}
	rt.Reach("end")
}

func c26Key(tag string) (crypto.PrivKey, crypto.PubKey, []byte) {
	seed := rt.Bytes(tag, 32, 32)
	std := ed25519.NewKeyFromSeed(seed)
	k, pub, err := crypto.KeyPairFromStdKey(&std)
	rt.Assert("key from seed", err == nil)
	return k, pub, seed
}

func c26Signal() *WebRtcSignal {
	switch rt.Choose("kind", 3) {
	case 0:
		return &WebRtcSignal{Body: &WebRtcSignal_RequestOffer{RequestOffer: uint64(rt.U16("seq"))}}
	case 1:
		return &WebRtcSignal{Body: &WebRtcSignal_Sdp{Sdp: &WebRtcSdp{TxSeqno: uint64(rt.U16("seq")), SdpType: rt.String("sdptype", 0, 2), Sdp: rt.String("sdp", 0, 2)}}}
	}
	return &WebRtcSignal{Body: &WebRtcSignal_Ice{Ice: &WebRtcIce{Candidate: rt.String("cand", 0, 2)}}}
}

// VerifC26RoundTrip: a signal encoded for a peer decodes with that peer's key to exactly the
// original; another key, another context or arbitrary bytes do not decode.
func VerifC26RoundTrip() {
	priv, pub, seed := c26Key("seed")
	sig := c26Signal()
	enc, err := EncodeWebRtcSignal(sig, pub)
	rt.Assert("encode", err == nil)
	switch rt.Choose("reader", 4) {
	case 0:
		got, err := DecodeWebRtcSignal(enc, priv)
		rt.Assert("recipient decodes", err == nil && got != nil)
		rt.Assert("decoded signal equals the original", got.EqualVT(sig) && sig.EqualVT(got))
		rt.Reach("recipient")
	case 1:
		other, _, seed2 := c26Key("seed2")
		rt.Assume(rt.Not(rt.BytesEq(seed, seed2)))
		got, err := DecodeWebRtcSignal(enc, other)
		rt.Assert("another key cannot decode", err != nil && got == nil)
		rt.Reach("stranger")
	case 2:
		ctx := rt.String("ctx", 0, 2)
		pt, err := peer.DecryptWithPrivKey(priv, ctx, enc)
		rt.Assert("a non-WebRTC context cannot decrypt", err != nil && pt == nil)
		rt.Reach("other context")
	case 3:
		garbage := rt.Bytes("garbage", 0, 60)
		rt.Assume(rt.Not(rt.BytesEq(garbage, enc)))
		got, err := DecodeWebRtcSignal(garbage, priv)
		rt.Assert("arbitrary payload is refused", err != nil && got == nil)
		rt.Reach("garbage")
	}
	rt.Reach("end")
}

type c26DC struct {
	datachannel.ReadWriteCloser
	closed int
}

func (d *c26DC) Close() error { d.closed++; return nil }

// VerifC26LinkPeer: when the data channel of a session with peer P opens, the QUIC handshake run over
// it — listening on the offerer side, dialing on the answerer side — is bound to P: the expected-peer
// argument is exactly the session's peer id and never empty.
func VerifC26LinkPeer() {
	local := peer.ID(rt.String("local", 1, 2))
	remote := peer.ID(rt.String("remote", 1, 2))
	rt.Assume(local != remote)
	w := &WebRTC{peerID: local, conf: &Config{}, le: logrus.NewEntry(logrus.New())}
	offerer := isOfferer(local.String(), remote.String())
	s := &sessionTracker{w: w, le: w.le, key: remote.String(), peerID: remote, offerer: offerer}
	err := s.executeLink(context.Background(), &c26DC{})
	rt.Assert("without a handshake no link is made", err != nil)
	rt.Assert("exactly one handshake is attempted", len(rt.QuicSessionCalls) == 1)
	if len(rt.QuicSessionCalls) == 1 {
		c := rt.QuicSessionCalls[0]
		rt.Assert("the handshake is bound to the session's peer", c.RPeer == remote && c.RPeer != "")
		rt.Assert("the offerer listens and the answerer dials", c.Dial == !offerer)
		if c.Dial {
			rt.Assert("the dial addresses the session's peer", c.Addr != nil && c.Addr.String() == peer.NewNetAddr(remote).String())
		}
	}
	rt.Reach("end")
}
