package hash

import (
	rt "github.com/aperturerobotics/bifrost/zz_verifrt"
)

func c15RefDigest(ht HashType, data []byte) ([]byte, bool) {
	switch ht {
	case HashType_HashType_SHA256:
		return rt.RefSHA256(data), true
	case HashType_HashType_SHA1:
		return rt.RefSHA1(data), true
	case HashType_HashType_BLAKE3:
		return rt.RefBLAKE3(data), true
	}
	return nil, false
}

func c15RefLen(ht HashType) (int, bool) {
	switch ht {
	case HashType_HashType_SHA256, HashType_HashType_BLAKE3:
		return 32, true
	case HashType_HashType_SHA1:
		return 20, true
	}
	return 0, false
}

// VerifC15Verify: VerifyData succeeds exactly when the type is known and H_type(data) == stored digest.
func VerifC15Verify() {
	ht := HashType(rt.U32("ht"))
	digest := rt.BytesOfLen("digest", 0, 19, 20, 21, 31, 32, 33)
	dm := 2
	if rt.Tier() > 0 {
		dm = 4
	}
	data := rt.Bytes("data", 0, dm)
	h := &Hash{HashType: ht, Hash: digest}
	got, err := h.VerifyData(data)
	ref, known := c15RefDigest(ht, data)
	want := known && rt.BytesEq(ref, digest)
	rt.Assert("VerifyData succeeds iff known type and digest matches", (err == nil) == want)
	if err == nil {
		rt.Reach("verified")
		rt.Assert("returned digest is the data's digest", rt.BytesEq(got, ref))
	}
	if known {
		// Sum agrees with the reference and verifies against itself
		sh, serr := Sum(ht, data)
		rt.Assert("Sum of known type", serr == nil && rt.BytesEq(sh.GetHash(), ref) && sh.GetHashType() == ht)
		_, verr := sh.VerifyData(data)
		rt.Assert("Sum verifies against its own data", verr == nil)
		rt.Assert("Sum is valid", sh.Validate() == nil)
	}
	rt.Reach("end")
}

// VerifC15Validate: a hash is valid only if its algorithm is known and the digest has that length.
func VerifC15Validate() {
	ht := HashType(rt.U32("ht"))
	digest := rt.BytesOfLen("digest", 0, 19, 20, 21, 31, 32, 33)
	h := &Hash{HashType: ht, Hash: digest}
	n, known := c15RefLen(ht)
	verr := h.Validate()
	rt.KnownFinding("C15-unknown-type-empty-digest-valid", ht == HashType_HashType_UNKNOWN && len(digest) == 0)
	rt.Assert("Validate() == nil iff known type and exact length", (verr == nil) == (known && len(digest) == n))
	rt.Assert("GetHashLen agrees with the table", ht.GetHashLen() == n)
	rt.KnownFinding("C15-unknown-type-validates", ht == HashType_HashType_UNKNOWN)
	rt.Assert("HashType.Validate() == nil iff known", (ht.Validate() == nil) == known)
	rt.Reach("end")
}

// VerifC15Codec: binary and base-58 encodings round-trip; Clone and CompareHash are exact.
func VerifC15Codec() {
	ht := HashType(rt.U32("ht"))
	digest := rt.BytesOfLen("digest", 0, 1, 20, 32)
	h := &Hash{HashType: ht, Hash: digest}
	bin, err := h.MarshalVT()
	rt.Assert("marshal", err == nil)
	rt.Assert("MarshalDigest is the binary form", rt.BytesEq(h.MarshalDigest(), bin))
	h2 := &Hash{}
	rt.Assert("binary decode", h2.UnmarshalVT(bin) == nil)
	rt.Assert("binary round trip", h2.GetHashType() == ht && rt.BytesEq(h2.GetHash(), digest))
	txt := h.MarshalString()
	h3 := &Hash{}
	rt.KnownFinding("C15-empty-hash-text-form", ht == 0 && len(digest) == 0)
	rt.Assert("text decode", h3.ParseFromB58(txt) == nil)
	rt.Assert("text round trip", h3.GetHashType() == ht && rt.BytesEq(h3.GetHash(), digest))
	c := h.Clone()
	rt.Assert("clone equal", c.CompareHash(h) && h.CompareHash(c) && c.GetHashType() == ht)
	if len(digest) > 0 {
		rt.Assert("clone does not alias", !rt.SameBacking(c.Hash, h.Hash))
	}
	// CompareHash is exact
	o := &Hash{HashType: HashType(rt.U32("ht2")), Hash: rt.BytesOfLen("digest2", 0, 1, 20, 32)}
	eq := rt.And(o.HashType == ht, len(o.Hash) == len(digest) && rt.BytesEq(o.Hash, digest))
	rt.Assert("CompareHash iff same type and digest", h.CompareHash(o) == eq)
	rt.Reach("end")
}

// VerifC15TotalBinary: decoding arbitrary bytes never panics, nor does using the decoded hash.
func VerifC15TotalBinary() {
	n := 5
	if rt.Tier() > 0 {
		n = 7
	}
	h := &Hash{}
	err := h.UnmarshalVT(rt.Bytes("bin", 0, n))
	if err == nil {
		rt.Reach("decoded")
		_ = h.Validate()
		_, _ = h.VerifyData(nil)
		_ = h.MarshalString()
	}
	rt.Reach("end")
}

// VerifC15TotalText: parsing arbitrary text never panics.
func VerifC15TotalText() {
	h2 := &Hash{}
	err := h2.ParseFromB58(rt.String("txt", 0, 4))
	if err == nil {
		rt.Reach("parsed")
		_ = h2.Validate()
	}
	rt.Reach("end")
}
