package extra25519

import (
	"filippo.io/edwards25519"
	rt "github.com/aperturerobotics/bifrost/zz_verifrt"
)

// c14SmallOrder is filled from /verif/spec/ed25519_small_order.py (recomputed from the curve
// equation at check time and compared with this table by the check driver's self-test).
// Each entry is the little-endian encoding of y with the sign bit cleared.
var c14SmallOrder = [7][32]byte{
	{0x00},
	{0x01},
	{0x26, 0xe8, 0x95, 0x8f, 0xc2, 0xb2, 0x27, 0xb0, 0x45, 0xc3, 0xf4, 0x89, 0xf2, 0xef, 0x98, 0xf0, 0xd5, 0xdf, 0xac, 0x05, 0xd3, 0xc6, 0x33, 0x39, 0xb1, 0x38, 0x02, 0x88, 0x6d, 0x53, 0xfc, 0x05},
	{0xc7, 0x17, 0x6a, 0x70, 0x3d, 0x4d, 0xd8, 0x4f, 0xba, 0x3c, 0x0b, 0x76, 0x0d, 0x10, 0x67, 0x0f, 0x2a, 0x20, 0x53, 0xfa, 0x2c, 0x39, 0xcc, 0xc6, 0x4e, 0xc7, 0xfd, 0x77, 0x92, 0xac, 0x03, 0x7a},
	{0xec, 0xff, 0xff, 0xff, 0xff, 0xff, 0xff, 0xff, 0xff, 0xff, 0xff, 0xff, 0xff, 0xff, 0xff, 0xff, 0xff, 0xff, 0xff, 0xff, 0xff, 0xff, 0xff, 0xff, 0xff, 0xff, 0xff, 0xff, 0xff, 0xff, 0xff, 0x7f},
	{0xed, 0xff, 0xff, 0xff, 0xff, 0xff, 0xff, 0xff, 0xff, 0xff, 0xff, 0xff, 0xff, 0xff, 0xff, 0xff, 0xff, 0xff, 0xff, 0xff, 0xff, 0xff, 0xff, 0xff, 0xff, 0xff, 0xff, 0xff, 0xff, 0xff, 0xff, 0x7f},
	{0xee, 0xff, 0xff, 0xff, 0xff, 0xff, 0xff, 0xff, 0xff, 0xff, 0xff, 0xff, 0xff, 0xff, 0xff, 0xff, 0xff, 0xff, 0xff, 0xff, 0xff, 0xff, 0xff, 0xff, 0xff, 0xff, 0xff, 0xff, 0xff, 0xff, 0xff, 0x7f},
}

func c14InSet(ge []byte) bool {
	in := false
	for i := range c14SmallOrder {
		eq := true
		for j := 0; j < 32; j++ {
			b := ge[j]
			if j == 31 {
				b &= 0x7f
			}
			eq = rt.And(eq, b == c14SmallOrder[i][j])
		}
		in = rt.Or(in, eq)
	}
	return in
}

// VerifC14Classifier: for every one of the 2^256 encodings, IsEdLowOrder(ge) holds exactly when
// ge (sign bit ignored) is one of the seven small-order encodings.
func VerifC14Classifier() {
	ge := rt.Bytes("ge", 32, 32)
	got := IsEdLowOrder(ge)
	rt.Assert("IsEdLowOrder == membership in the small-order set", got == c14InSet(ge))
	rt.Reach("end")
}

// VerifC14Convert: PublicKeyToCurve25519 refuses exactly small-order or invalid encodings,
// never panics on 32-byte input, and returns 32 bytes otherwise.
func VerifC14Convert() {
	ge := rt.Bytes("ge", 32, 32)
	out, ok := PublicKeyToCurve25519(ge)
	if c14InSet(ge) {
		rt.Reach("small-order")
		rt.Assert("small-order point refused", !ok && out == nil)
	} else if ok {
		rt.Reach("converted")
		rt.Assert("converted key has 32 bytes", len(out) == 32)
	} else {
		rt.Reach("invalid-encoding")
	}
	// reference: the same point decoder decides what a curve point is
	pt, perr := (&edwards25519.Point{}).SetBytes(ge)
	rt.Assert("conversion succeeds exactly for curve points that are not of small order", ok == (perr == nil && !c14InSet(ge)))
	if ok && perr == nil {
		rt.Assert("the converted key is the point's Montgomery u-coordinate", rt.BytesEq(out, pt.BytesMontgomery()))
	}
	rt.Reach("end")
}

// VerifC14Short: inputs shorter than 32 bytes make the classifier panic (all callers pass 32 bytes);
// a change that silently classifies short input is visible here.
func VerifC14Short() {
	ge := rt.Bytes("ge", 0, 31)
	panicked := false
	func() {
		defer func() {
			if recover() != nil {
				panicked = true
			}
		}()
		IsEdLowOrder(ge)
	}()
	rt.Assert("short input panics rather than being classified", panicked)
	rt.Reach("end")
}
