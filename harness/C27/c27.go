package floodsub

import (
	"context"
	"crypto/ed25519"

	"github.com/aperturerobotics/bifrost/crypto"
	"github.com/aperturerobotics/bifrost/hash"
	"github.com/aperturerobotics/bifrost/peer"
	"github.com/aperturerobotics/bifrost/pubsub"
	"github.com/aperturerobotics/bifrost/pubsub/util/pubmessage"
	cache "github.com/patrickmn/go-cache"
	"github.com/sirupsen/logrus"
	rt "github.com/aperturerobotics/bifrost/zz_verifrt"
)

// c27Node builds a floodsub node subscribed to the given channels; each subscription has one
// handler that records what it is handed.
func c27Node(channels []string) *FloodSub {
	m := &FloodSub{
		conf:         &Config{},
		le:           logrus.NewEntry(logrus.New()),
		wakeCh:       make(chan struct{}, 1),
		peers:        make(map[pubsub.PeerLinkTuple]*streamHandler),
		channels:     make(map[string]map[*subscription]struct{}),
		publishCh:    make(chan *publishChMsg, 16),
		seenMessages: cache.New(0, 0),
		peerChannels: make(map[string]map[pubsub.PeerLinkTuple]struct{}),
	}
	for _, ch := range channels {
		ch := ch
		sub := &subscription{ctx: context.Background(), m: m, channelID: ch, handlers: make(map[*subscriptionHandler]struct{})}
		sub.handlers[&subscriptionHandler{cb: func(msg pubsub.Message) {
			rt.Log("delivered:"+ch, msg)
		}}] = struct{}{}
		m.channels[ch] = map[*subscription]struct{}{sub: {}}
	}
	return m
}

func c27Key(tag string) (crypto.PrivKey, crypto.PubKey, []byte) {
	seed := rt.Bytes(tag, 32, 32)
	std := ed25519.NewKeyFromSeed(seed)
	k, pub, err := crypto.KeyPairFromStdKey(&std)
	rt.Assert("key from seed", err == nil)
	return k, pub, seed
}

// VerifC27Deliver: a subscriber's handler is invoked only for an authentic message whose signed
// channel is the handler's channel; anything else is neither delivered nor forwarded.
func VerifC27Deliver() {
	// the node subscribes to a subset of {"a","b"}
	var chans []string
	subA, subB := rt.Choose("subA", 2) == 1, rt.Choose("subB", 2) == 1
	if subA {
		chans = append(chans, "a")
	}
	if subB {
		chans = append(chans, "b")
	}
	m := c27Node(chans)
	// an honest publisher signs one message for channel hch
	sk, _, _ := c27Key("seed")
	hch := []string{"a", "b", "c"}[rt.Choose("honestChannel", 3)]
	hdata := rt.Bytes("hdata", 1, 1)
	honest, _, err := pubmessage.NewPubMessage(hch, sk, hash.HashType_HashType_SHA256, hdata)
	rt.Assert("honest message", err == nil)
	// the packet received from the network: every part may differ from the honest message
	pkt := &peer.SignedMsg{FromPeerId: honest.FromPeerId, Signature: &peer.Signature{HashType: honest.Signature.HashType, SigData: honest.Signature.SigData}, Data: honest.Data}
	claimed := hch
	switch rt.Choose("tamper", 7) {
	case 0: // untouched
	case 1: // inner channel and/or data replaced (re-marshalled), signature kept
		claimed = []string{"a", "b", "c"}[rt.Choose("claimedChannel", 3)]
		inner := &pubmessage.PubMessageInner{Channel: claimed, Data: rt.Bytes("data", 0, 1)}
		b, err := inner.MarshalVT()
		rt.Assert("marshal", err == nil)
		pkt.Data = b
	case 2: // signature bytes replaced
		pkt.Signature.SigData = rt.Bytes("sig", 64, 64)
	case 3: // claimed sender replaced by another identity
		_, pub2, _ := c27Key("seed2")
		id2, _ := peer.IDFromPublicKey(pub2)
		pkt.FromPeerId = id2.String()
	case 4: // hash type replaced
		pkt.Signature.HashType = hash.HashType(rt.IntRange("ht", 0, 4))
	case 5: // an attacker signs the same inner message with an own key and attaches that key to the
		// signature (the wire format has a pub_key field); the claimed sender stays the honest publisher
		sk2, _, _ := c27Key("seed2")
		forged, err := peer.NewSignature("bifrost/pubsub/pubmessage 2024-06-05T02:38:47.55258Z channel/"+hch, sk2, hash.HashType_HashType_SHA256, honest.Data, true)
		rt.Assert("attacker signature", err == nil)
		pkt.Signature = forged
	case 6: // the honest signature with a public key attached (the honest one or a foreign one)
		if rt.Choose("attachedKey", 2) == 0 {
			pkt.Signature.PubKey, _ = crypto.MarshalPublicKey(sk.GetPublic())
		} else {
			sk2, _, _ := c27Key("seed2")
			pkt.Signature.PubKey, _ = crypto.MarshalPublicKey(sk2.GetPublic())
		}
	}
	// "same": the packet is the honest message; an attached copy of a public key does not change what
	// was signed, by whom, or for which channel (tamper 6 may therefore be accepted or refused)
	same := rt.And(rt.And(rt.BytesEq(pkt.Data, honest.Data), rt.BytesEq(pkt.Signature.SigData, honest.Signature.SigData)),
		rt.And(pkt.FromPeerId == honest.FromPeerId, pkt.Signature.HashType == honest.Signature.HashType))
	attachedOnly := len(pkt.Signature.PubKey) != 0
	s := &streamHandler{m: m, le: m.le, peerID: peer.ID("\x00\x01P"), ctx: context.Background()}
	rt.KnownFinding("C01-verify-error-dropped", rt.Not(same))
	s.handlePublish([]*peer.SignedMsg{pkt})
	rt.Quiesce()
	da, db := rt.LogLen("delivered:a"), rt.LogLen("delivered:b")
	fwd := len(m.publishCh)
	subscribed := (claimed == "a" && subA) || (claimed == "b" && subB)
	if da+db > 0 || fwd > 0 {
		rt.Reach("delivered or forwarded")
		rt.Assert("delivered/forwarded => the packet is the authentic message", same)
		rt.Assert("delivered/forwarded => the node subscribes to the signed channel", subscribed)
		rt.Assert("delivered only to the signed channel's handler, once", (claimed == "a" && da == 1 && db == 0) || (claimed == "b" && db == 1 && da == 0))
		rt.Assert("forwarded once", fwd == 1)
		signer, derr := peer.IDB58Decode(honest.FromPeerId)
		rt.Assert("signer id", derr == nil)
		for _, ch := range []string{"a", "b"} {
			for _, v := range rt.Logged("delivered:" + ch) {
				dm := v.(pubsub.Message)
				rt.Assert("the subscriber is told the signer as the sender (not the previous hop)", dm.GetFrom() == signer)
				rt.Assert("the subscriber receives the signed payload", rt.BytesEq(dm.GetData(), hdata))
				rt.Assert("the subscriber sees the message as authenticated", dm.GetAuthenticated())
			}
		}
	} else {
		rt.Reach("dropped")
		rt.Assert("an authentic message for a subscribed channel is delivered", attachedOnly || !(rt.And(same, subscribed)))
	}
	rt.Reach("end")
}

// VerifC27Batch: one network packet carries two publish entries: a forged one (claimed sender = victim,
// body and signature by another key, or a tampered copy) followed by an honest one. Only the honest
// entry reaches the subscriber, attributed to its real signer, and only the honest entry is forwarded.
func VerifC27Batch() {
	m := c27Node([]string{"a"})
	sk, _, seed := c27Key("seed")
	honest, _, err := pubmessage.NewPubMessage("a", sk, hash.HashType_HashType_SHA256, []byte{1})
	rt.Assert("honest message", err == nil)
	sk2, pub2, seed2 := c27Key("seed2")
	rt.Assume(rt.Not(rt.BytesEq(seed, seed2))) // the victim is another identity than the publisher
	victim, _ := peer.IDFromPublicKey(pub2)
	var bad *peer.SignedMsg
	switch rt.Choose("forgery", 3) {
	case 0: // claims the victim as sender, signed by the honest publisher's key over another body
		other, _, _ := pubmessage.NewPubMessage("a", sk, hash.HashType_HashType_SHA256, []byte{2})
		bad = &peer.SignedMsg{FromPeerId: victim.String(), Signature: other.Signature, Data: other.Data}
	case 1: // the honest entry with its body altered
		bad = &peer.SignedMsg{FromPeerId: honest.FromPeerId, Signature: honest.Signature, Data: append([]byte{}, honest.Data...)}
		bad.Data[len(bad.Data)-1] ^= 1
	case 2: // 64 arbitrary signature bytes under the victim's name
		inner, _, _ := pubmessage.NewPubMessage("a", sk2, hash.HashType_HashType_SHA256, []byte{3})
		bad = &peer.SignedMsg{FromPeerId: victim.String(), Signature: &peer.Signature{HashType: hash.HashType_HashType_SHA256, SigData: rt.Bytes("sig", 64, 64)}, Data: inner.Data}
		rt.Assume(rt.Not(rt.BytesEq(bad.Signature.SigData, inner.Signature.SigData)))
	}
	batch := []*peer.SignedMsg{bad, honest}
	if rt.Choose("order", 2) == 1 {
		batch = []*peer.SignedMsg{honest, bad}
	}
	s := &streamHandler{m: m, le: m.le, peerID: peer.ID("\x00\x01P"), ctx: context.Background()}
	s.handlePublish(batch)
	rt.Quiesce()
	signer, derr := peer.IDB58Decode(honest.FromPeerId)
	rt.Assert("signer id", derr == nil)
	got := rt.Logged("delivered:a")
	rt.Assert("exactly the honest entry is delivered", len(got) == 1)
	for _, v := range got {
		dm := v.(pubsub.Message)
		rt.Assert("the delivered message is attributed to the key that signed it", dm.GetFrom() == signer)
		rt.Assert("the delivered payload is the honest one", rt.BytesEq(dm.GetData(), []byte{1}))
	}
	rt.Assert("exactly one entry is forwarded", len(m.publishCh) == 1)
	if len(m.publishCh) == 1 {
		f := <-m.publishCh
		rt.Assert("the forwarded entry is the honest, verified one", f.msg == honest)
	}
	rt.Reach("end")
}

// VerifC27Unsubscribed: a channel the node subscribed to and released again before the router ever
// announced it is not a subscribed channel: authentic traffic for it is neither delivered nor forwarded.
func VerifC27Unsubscribed() {
	rt.SchedBound(0, false)
	m := c27Node(nil)
	ctx, cancel := context.WithCancel(context.Background())
	rt.Go("router", func() { _ = m.Execute(ctx) })
	rt.Quiesce()
	sk, _, _ := c27Key("seed")
	sub, err := m.AddSubscription(ctx, sk, "a")
	rt.Assert("subscribe", err == nil)
	if rt.Choose("announcedFirst", 2) == 1 {
		rt.Quiesce()
		rt.FireTickers()
		rt.Quiesce()
	}
	sub.Release()
	rt.Quiesce()
	rt.FireTickers()
	rt.Quiesce()
	pub, _, _ := c27Key("seed2")
	msg, _, err := pubmessage.NewPubMessage("a", pub, hash.HashType_HashType_SHA256, []byte{9})
	rt.Assert("message", err == nil)
	s := &streamHandler{m: m, le: m.le, peerID: peer.ID("\x00\x01P"), ctx: ctx}
	n0 := len(m.publishCh)
	s.handlePublish([]*peer.SignedMsg{msg})
	rt.Assert("traffic for a channel without a local subscription is not queued for forwarding", len(m.publishCh) == n0)
	cancel()
	rt.Quiesce()
	rt.Reach("end")
}
