package floodsub

import (
	"context"
	"crypto/ed25519"

	"github.com/aperturerobotics/bifrost/crypto"
	"github.com/aperturerobotics/bifrost/hash"
	"github.com/aperturerobotics/bifrost/peer"
	"github.com/aperturerobotics/bifrost/pubsub"
	"github.com/aperturerobotics/bifrost/pubsub/util/pubmessage"
	cache "github.com/patrickmn/go-cache"
	"github.com/sirupsen/logrus"
	rt "github.com/aperturerobotics/bifrost/zz_verifrt"
)

// c27Node builds a floodsub node subscribed to the given channels; each subscription has one
// handler that records what it is handed.
func c27Node(channels []string) *FloodSub {
	m := &FloodSub{
		conf:         &Config{},
		le:           logrus.NewEntry(logrus.New()),
		wakeCh:       make(chan struct{}, 1),
		peers:        make(map[pubsub.PeerLinkTuple]*streamHandler),
		channels:     make(map[string]map[*subscription]struct{}),
		publishCh:    make(chan *publishChMsg, 16),
		seenMessages: cache.New(0, 0),
		peerChannels: make(map[string]map[pubsub.PeerLinkTuple]struct{}),
	}
	for _, ch := range channels {
		ch := ch
		sub := &subscription{ctx: context.Background(), m: m, channelID: ch, handlers: make(map[*subscriptionHandler]struct{})}
		sub.handlers[&subscriptionHandler{cb: func(msg pubsub.Message) {
			rt.Log("delivered:"+ch, msg)
		}}] = struct{}{}
		m.channels[ch] = map[*subscription]struct{}{sub: {}}
	}
	return m
}

func c27Key(tag string) (crypto.PrivKey, crypto.PubKey, []byte) {
	seed := rt.Bytes(tag, 32, 32)
	std := ed25519.NewKeyFromSeed(seed)
	k, pub, err := crypto.KeyPairFromStdKey(&std)
	rt.Assert("key from seed", err == nil)
	return k, pub, seed
}

// VerifC27Deliver: a subscriber's handler is invoked only for an authentic message whose signed
// channel is the handler's channel; anything else is neither delivered nor forwarded.
func VerifC27Deliver() {
	// the node subscribes to a subset of {"a","b"}
	var chans []string
	subA, subB := rt.Choose("subA", 2) == 1, rt.Choose("subB", 2) == 1
	if subA {
		chans = append(chans, "a")
	}
	if subB {
		chans = append(chans, "b")
	}
	m := c27Node(chans)
	// an honest publisher signs one message for channel hch
	sk, _, _ := c27Key("seed")
	hch := []string{"a", "b", "c"}[rt.Choose("honestChannel", 3)]
	hdata := rt.Bytes("hdata", 1, 1)
	honest, _, err := pubmessage.NewPubMessage(hch, sk, hash.HashType_HashType_SHA256, hdata)
	rt.Assert("honest message", err == nil)
	// the packet received from the network: every part may differ from the honest message
	pkt := &peer.SignedMsg{FromPeerId: honest.FromPeerId, Signature: &peer.Signature{HashType: honest.Signature.HashType, SigData: honest.Signature.SigData}, Data: honest.Data}
	claimed := hch
	switch rt.Choose("tamper", 5) {
	case 0: // untouched
	case 1: // inner channel and/or data replaced (re-marshalled), signature kept
		claimed = []string{"a", "b", "c"}[rt.Choose("claimedChannel", 3)]
		inner := &pubmessage.PubMessageInner{Channel: claimed, Data: rt.Bytes("data", 0, 1)}
		b, err := inner.MarshalVT()
		rt.Assert("marshal", err == nil)
		pkt.Data = b
	case 2: // signature bytes replaced
		pkt.Signature.SigData = rt.Bytes("sig", 64, 64)
	case 3: // claimed sender replaced by another identity
		_, pub2, _ := c27Key("seed2")
		id2, _ := peer.IDFromPublicKey(pub2)
		pkt.FromPeerId = id2.String()
	case 4: // hash type replaced
		pkt.Signature.HashType = hash.HashType(rt.IntRange("ht", 0, 4))
	}
	same := rt.And(rt.And(rt.BytesEq(pkt.Data, honest.Data), rt.BytesEq(pkt.Signature.SigData, honest.Signature.SigData)),
		rt.And(pkt.FromPeerId == honest.FromPeerId, pkt.Signature.HashType == honest.Signature.HashType))
	s := &streamHandler{m: m, le: m.le, peerID: peer.ID("\x00\x01P"), ctx: context.Background()}
	rt.KnownFinding("C01-verify-error-dropped", rt.Not(same))
	s.handlePublish([]*peer.SignedMsg{pkt})
	rt.Quiesce()
	da, db := rt.LogLen("delivered:a"), rt.LogLen("delivered:b")
	fwd := len(m.publishCh)
	subscribed := (claimed == "a" && subA) || (claimed == "b" && subB)
	if da+db > 0 || fwd > 0 {
		rt.Reach("delivered or forwarded")
		rt.Assert("delivered/forwarded => the packet is the authentic message", same)
		rt.Assert("delivered/forwarded => the node subscribes to the signed channel", subscribed)
		rt.Assert("delivered only to the signed channel's handler, once", (claimed == "a" && da == 1 && db == 0) || (claimed == "b" && db == 1 && da == 0))
		rt.Assert("forwarded once", fwd == 1)
	} else {
		rt.Reach("dropped")
		rt.Assert("an authentic message for a subscribed channel is delivered", !(rt.And(same, subscribed)))
	}
	rt.Reach("end")
}
