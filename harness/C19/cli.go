package signaling_rpc_client

import (
	"context"
	"crypto/ed25519"
	"io"

	"github.com/aperturerobotics/bifrost/crypto"
	"github.com/aperturerobotics/bifrost/peer"
	signaling_rpc "github.com/aperturerobotics/bifrost/signaling/rpc"
	"github.com/aperturerobotics/starpc/srpc"
	"github.com/sirupsen/logrus"
	rt "github.com/aperturerobotics/bifrost/zz_verifrt"
)

// ---- doubles shared by the signaling-client harnesses (C19, C21, C23)

type clPeer struct {
	priv crypto.PrivKey
	pub  crypto.PubKey
	id   peer.ID
	txt  string
}

func clNewPeer(b byte) *clPeer {
	seed := make([]byte, 32)
	for i := range seed {
		seed[i] = b + byte(i)
	}
	std := ed25519.NewKeyFromSeed(seed)
	k, pub, err := crypto.KeyPairFromStdKey(&std)
	if err != nil {
		panic(err)
	}
	id, err := peer.IDFromPrivateKey(k)
	if err != nil {
		panic(err)
	}
	return &clPeer{priv: k, pub: pub, id: id, txt: id.String()}
}

// clSess is the client's end of a Session RPC: the harness plays the relay.
type clSess struct {
	srpc.Stream
	ctx     context.Context
	respCh  chan *signaling_rpc.SessionResponse
	sent    []*signaling_rpc.SessionRequest
	closed  bool
	sendErr error
	// autoAck: the relay is honest and prompt: a SendMsg submitted under autoAckEpoch is acknowledged
	// at once (the ack is queued before the submitting goroutine runs on)
	autoAck      bool
	autoAckEpoch uint64
}

func (s *clSess) Context() context.Context { return s.ctx }
func (s *clSess) Send(m *signaling_rpc.SessionRequest) error {
	if s.sendErr != nil {
		return s.sendErr
	}
	s.sent = append(s.sent, m)
	if sm := m.GetSendMsg(); s.autoAck && sm != nil && m.GetSessionSeqno() == s.autoAckEpoch {
		s.respCh <- clAck(sm.GetSeqno())
	}
	return nil
}
func (s *clSess) Recv() (*signaling_rpc.SessionResponse, error) {
	select {
	case r, ok := <-s.respCh:
		if !ok {
			return nil, io.EOF
		}
		return r, nil
	case <-s.ctx.Done():
		return nil, s.ctx.Err()
	}
}
func (s *clSess) RecvTo(m *signaling_rpc.SessionResponse) error { panic("unused") }
func (s *clSess) Close() error                                  { s.closed = true; return nil }
func (s *clSess) CloseSend() error                              { return nil }

type clRPC struct {
	signaling_rpc.SRPCSignalingClient
	sess *clSess
}

func (c *clRPC) Session(ctx context.Context) (signaling_rpc.SRPCSignaling_SessionClient, error) {
	c.sess.ctx = ctx
	return c.sess, nil
}

type clWorld struct {
	me, remote *clPeer
	sess       *clSess
	tkr        *clientPeerTracker
	ref        *ClientPeerRef
	ctx        context.Context
	cancel     context.CancelFunc
	execDone   bool
	execErr    error
}

// clNewWorld builds the tracker of `me` for the session with `remote` and starts its routine.
func clNewWorld(me, remote *clPeer, start bool) *clWorld {
	w := &clWorld{me: me, remote: remote}
	w.ctx, w.cancel = context.WithCancel(context.Background())
	w.sess = &clSess{respCh: make(chan *signaling_rpc.SessionResponse, 8)}
	le := logrus.NewEntry(logrus.New())
	c := &Client{le: le, client: &clRPC{sess: w.sess}, privKey: me.priv, peerID: me.id}
	w.tkr = &clientPeerTracker{c: c, le: le, key: remote.txt, peerID: remote.id}
	w.ref = &ClientPeerRef{c: c, tkr: w.tkr}
	if start {
		rt.Go("client", func() {
			w.execErr = w.tkr.execute(w.ctx)
			w.execDone = true
		})
	}
	return w
}

func clOpened(n uint64) *signaling_rpc.SessionResponse {
	return &signaling_rpc.SessionResponse{Body: &signaling_rpc.SessionResponse_Opened{Opened: n}}
}
func clClosed() *signaling_rpc.SessionResponse {
	return &signaling_rpc.SessionResponse{Body: &signaling_rpc.SessionResponse_Closed{Closed: true}}
}
func clAck(n uint64) *signaling_rpc.SessionResponse {
	return &signaling_rpc.SessionResponse{Body: &signaling_rpc.SessionResponse_AckMsg{AckMsg: n}}
}
func clClear(n uint64) *signaling_rpc.SessionResponse {
	return &signaling_rpc.SessionResponse{Body: &signaling_rpc.SessionResponse_ClearMsg{ClearMsg: n}}
}
func clRecv(m *signaling_rpc.SessionMsg) *signaling_rpc.SessionResponse {
	return &signaling_rpc.SessionResponse{Body: &signaling_rpc.SessionResponse_RecvMsg{RecvMsg: m}}
}
