package signaling_rpc_client

import (
	"github.com/aperturerobotics/bifrost/crypto"
	"github.com/aperturerobotics/bifrost/hash"
	"github.com/aperturerobotics/bifrost/peer"
	signaling_rpc "github.com/aperturerobotics/bifrost/signaling/rpc"
	rt "github.com/aperturerobotics/bifrost/zz_verifrt"
)

// c19Honest are the signed messages that exist in the world: what the partner A really submitted
// for this peer, a message of a third party C, and a message A signed for another purpose (context).
type c19Honest struct {
	fromA, fromC, otherCtx *peer.SignedMsg
}

func c19World(A, C *clPeer, data []byte) *c19Honest {
	ma, err := signaling_rpc.NewSessionMsg(A.priv, hash.HashType_HashType_BLAKE3, data, 1)
	rt.Assert("honest message", err == nil)
	mc, err := signaling_rpc.NewSessionMsg(C.priv, hash.HashType_HashType_BLAKE3, data, 1)
	rt.Assert("third-party message", err == nil)
	mo, err := peer.NewSignedMsg("some other protocol", A.priv, hash.HashType_HashType_BLAKE3, data)
	rt.Assert("other-context message", err == nil)
	return &c19Honest{fromA: ma.SignedMsg, fromC: mc.SignedMsg, otherCtx: mo}
}

// c19Packet is what a malicious relay hands to the client: every field is chosen independently among
// the values a relay can know (or invent).
func c19Packet(tag string, h *c19Honest, A, C, Me *clPeer) (*signaling_rpc.SessionMsg, bool) {
	pkt := &peer.SignedMsg{Signature: &peer.Signature{}}
	switch rt.Choose(tag+":from", 4) {
	case 0:
		pkt.FromPeerId = A.txt
	case 1:
		pkt.FromPeerId = C.txt
	case 2:
		pkt.FromPeerId = Me.txt
	case 3:
		pkt.FromPeerId = rt.String(tag+":fromtxt", 0, 2)
	}
	// body, signature bytes and hash type are free symbolic values: the honest ones are among them
	pkt.Data = rt.Bytes(tag+":data", 0, 1)
	pkt.Signature.SigData = rt.Bytes(tag+":sig", 64, 64)
	pkt.Signature.HashType = hash.HashType(rt.U32(tag + ":ht"))
	// an attached public key (the wire format has the field; honest senders leave it empty)
	switch rt.Choose(tag+":pubkey", 3) {
	case 1:
		pkt.Signature.PubKey, _ = cryptoMarshalPub(C)
	case 2:
		pkt.Signature.PubKey, _ = cryptoMarshalPub(A)
	}
	if pkt.FromPeerId == A.txt && len(pkt.Signature.PubKey) == 0 && rt.Choose(tag+":dataIsDigest", 2) == 1 {
		// the relay replaces the body of A's message by its BLAKE3 digest (a 32-byte message), keeping the rest
		pkt.Data = rt.RefBLAKE3(h.fromA.Data)
		pkt.Signature.SigData = h.fromA.Signature.SigData
		pkt.Signature.HashType = h.fromA.Signature.HashType
	}
	same := rt.And(rt.And(rt.BytesEq(pkt.Data, h.fromA.Data), rt.BytesEq(pkt.Signature.SigData, h.fromA.Signature.SigData)),
		rt.And(pkt.FromPeerId == h.fromA.FromPeerId, pkt.Signature.HashType == h.fromA.Signature.HashType))
	return &signaling_rpc.SessionMsg{SignedMsg: pkt, Seqno: rt.U64(tag + ":seqno")}, same
}

// VerifC19Accept: whatever sequence of responses a (malicious) relay delivers, every message the
// client hands to the application is exactly the message the session partner A signed for this
// session; anything else ends the session routine with an error and is never returned by Recv.
func VerifC19Accept() {
	k := 2
	if rt.Tier() > 0 {
		k = 3
	}
	rt.SchedBound(0, false)
	A, C, Me := clNewPeer(1), clNewPeer(120), clNewPeer(60)
	h := c19World(A, C, rt.Bytes("payload", 1, 1))
	w := clNewWorld(Me, A, true)
	var got []*signaling_rpc.SessionMsg
	rt.Go("app", func() {
		for {
			m, err := w.ref.Recv(w.ctx)
			if err != nil {
				return
			}
			got = append(got, m)
		}
	})
	rt.Quiesce()
	rt.Assert("the client asks the relay for a session with A", len(w.sess.sent) == 1 && w.sess.sent[0].GetInit().GetPeerId() == A.txt)
	n := rt.IntRange("responses", 1, k)
	allSame := true
	bad := false
	for i := 0; i < n; i++ {
		switch rt.Choose("resp", 5) {
		case 0:
			w.sess.respCh <- clOpened(rt.U64("epoch"))
		case 1:
			w.sess.respCh <- clClosed()
		case 2:
			w.sess.respCh <- clAck(rt.U64("ack"))
		case 3:
			w.sess.respCh <- clClear(rt.U64("clear"))
		case 4:
			m, same := c19Packet("pkt", h, A, C, Me)
			if !bad {
				// after a rejected packet the routine has ended; later packets are not processed
				allSame = rt.And(allSame, same)
			}
			if rt.Not(same) {
				bad = true
			}
			w.sess.respCh <- m2resp(m)
		}
		if rt.Choose("settle", 2) == 1 {
			rt.Quiesce()
		}
	}
	rt.Quiesce()
	for _, m := range got {
		rt.Reach("a message reached the application")
		sm := m.GetSignedMsg()
		ok := rt.And(rt.And(rt.BytesEq(sm.GetData(), h.fromA.Data), rt.BytesEq(sm.GetSignature().GetSigData(), h.fromA.Signature.SigData)),
			rt.And(sm.GetFromPeerId() == A.txt, sm.GetSignature().GetHashType() == h.fromA.Signature.HashType))
		rt.Assert("a message handed to the application is the one the partner signed for this session", ok)
		_, pid, err := m.ExtractAndVerify()
		rt.Assert("and it verifies under the partner's identity", err == nil && pid == A.id)
	}
	if bad {
		rt.Reach("forged packet")
		rt.Assert("a forged, altered or re-attributed packet ends the session routine with an error", w.execDone && w.execErr != nil)
	}
	rt.Reach("end")
}

func m2resp(m *signaling_rpc.SessionMsg) *signaling_rpc.SessionResponse { return clRecv(m) }

func cryptoMarshalPub(p *clPeer) ([]byte, error) { return crypto.MarshalPublicKey(p.pub) }
