package signaling_rpc_client

import (
	"context"

	signaling_rpc "github.com/aperturerobotics/bifrost/signaling/rpc"
	rt "github.com/aperturerobotics/bifrost/zz_verifrt"
)

// VerifC23SendProgress: a Send is pending while the session is re-opened up to two times (the relay
// announces a new epoch directly, or Closed and then a new epoch), at any point before or after the
// message was handed to the relay. Afterwards the session is stable and the relay is honest: it
// acknowledges the message it received under the current epoch. Then the Send has completed successfully.
func VerifC23SendProgress() {
	k := 1
	if rt.Tier() > 0 {
		k = 2
	}
	rt.SchedBound(0, false)
	A, Me := clNewPeer(1), clNewPeer(60)
	w := clNewWorld(Me, A, true)
	epoch := rt.U64("firstEpoch") // epochs are arbitrary 64-bit values
	openBeforeSend := rt.Choose("openBeforeSend", 2) == 1
	if openBeforeSend {
		w.sess.respCh <- clOpened(epoch)
		rt.Quiesce()
	}
	var sendErr error
	sendDone := false
	rt.Go("send", func() {
		_, sendErr = w.ref.Send(w.ctx, []byte{7})
		sendDone = true
	})
	rt.Quiesce()
	if !openBeforeSend {
		w.sess.respCh <- clOpened(epoch)
		rt.Quiesce()
	}
	// re-open events
	n := rt.IntRange("reopens", 0, k)
	for i := 0; i < n; i++ {
		if rt.Choose("viaClosed", 2) == 1 {
			w.sess.respCh <- clClosed()
			if rt.Choose("settleAfterClosed", 2) == 1 {
				rt.Quiesce()
			}
		}
		next := rt.U64("nextEpoch")
		rt.Assume(next != epoch) // a re-open carries a new epoch
		epoch = next
		w.sess.respCh <- clOpened(epoch)
		if rt.Choose("settleAfterOpened", 2) == 1 {
			rt.Quiesce()
		}
	}
	rt.Quiesce()
	rt.Assert("the Send is still pending: nothing was acknowledged yet", !sendDone)
	// stable suffix: the honest relay acknowledges what it holds for the current epoch
	sends, _, _ := c21SentAll(w.sess)
	var held *signaling_rpc.SessionRequest
	for _, s := range sends {
		if s.GetSessionSeqno() == epoch {
			held = s
		}
	}
	rt.Assert("after the last re-open the client has handed its message to the relay under the current epoch", held != nil)
	if held == nil {
		return
	}
	w.sess.respCh <- clAck(held.GetSendMsg().GetSeqno())
	rt.Quiesce()
	rt.Assert("once the session is stable and the message acknowledged, the pending Send succeeds", sendDone && sendErr == nil)
	// and a second Send goes through as well (the mailbox was left clean)
	var send2Err error
	send2Done := false
	rt.Go("send2", func() {
		_, send2Err = w.ref.Send(w.ctx, []byte{8})
		send2Done = true
	})
	rt.Quiesce()
	sends2, _, _ := c21SentAll(w.sess)
	rt.Assert("the next message is handed to the relay", len(sends2) == len(sends)+1 && sends2[len(sends2)-1].GetSessionSeqno() == epoch)
	if len(sends2) == len(sends)+1 {
		w.sess.respCh <- clAck(sends2[len(sends2)-1].GetSendMsg().GetSeqno())
		rt.Quiesce()
		rt.Assert("and its Send succeeds once acknowledged", send2Done && send2Err == nil)
	}
	_ = context.Background
	rt.Reach("end")
}

func c21SentAll(s *clSess) (sends, acks, clears []*signaling_rpc.SessionRequest) {
	return c21Sent(s, 0)
}

// VerifC23PromptAck: the same, but the re-open and the acknowledgement of the re-sent message are
// delivered back to back and every run-to-block order of the reader, the session routine and the
// pending Send is explored: the Send must not miss the acknowledgement that arrives before it has
// noticed the new epoch.
func VerifC23PromptAck() {
	rt.SchedBound(0, true)
	A, Me := clNewPeer(1), clNewPeer(60)
	w := clNewWorld(Me, A, true)
	w.sess.respCh <- clOpened(3)
	rt.Quiesce()
	var sendErr error
	sendDone := false
	rt.Go("send", func() {
		_, sendErr = w.ref.Send(w.ctx, []byte{7})
		sendDone = true
	})
	rt.Quiesce()
	rt.Assert("the message was handed to the relay and the Send waits", !sendDone && len(w.sess.sent) == 2)
	// the partner re-attached: the relay announces the new epoch and promptly acknowledges the re-sent message
	w.sess.autoAck, w.sess.autoAckEpoch = true, 5
	if rt.Choose("viaClosed", 2) == 1 {
		w.sess.respCh <- clClosed()
	}
	w.sess.respCh <- clOpened(5)
	rt.Quiesce()
	rt.Assert("the pending Send succeeds although the acknowledgement came before it noticed the re-open", sendDone && sendErr == nil)
	rt.Reach("end")
}
