package transport_quic

import (
	"context"

	"github.com/aperturerobotics/bifrost/peer"
	"github.com/quic-go/quic-go"
	"github.com/sirupsen/logrus"
	rt "github.com/aperturerobotics/bifrost/zz_verifrt"
)

// VerifC06QuicTable: the quic transport's address table under sessions arriving on one or two remote
// addresses, a newer session usurping an older one on the same address, and losses of the old and the
// new link in either order: the table holds, per address, the newest session that was not lost; the
// late loss of a usurped link does not remove (or report as lost) the link that replaced it; every
// link that left the table was closed.
func VerifC06QuicTable() {
	rt.SchedBound(0, false)
	local, X, Y := c05Key(1), c05Key(60), c05Key(120)
	ctx := context.Background()
	h := &c05Handler{}
	t := &Transport{ctx: ctx, le: logrus.NewEntry(logrus.New()), peerID: local.id, privKey: local.priv, uuid: 9,
		laddr: peer.NewNetAddr(local.id), handler: h, opts: &Opts{}, links: map[string]*Link{}, dialers: map[string]*Dialer{}}
	addrs := []string{"addr1", "addr2"}
	who := []*c05Ident{X, Y}
	var links []*Link
	var conns []*quic.Conn
	var linkAddr []int
	lost := map[*Link]bool{}
	n := 2
	if rt.Tier() > 0 {
		n = 3
	}
	nsess := rt.IntRange("sessions", 1, n)
	for i := 0; i < nsess; i++ {
		ai := rt.Choose("addr", 2)
		wi := rt.Choose("peer", 2)
		c := c05Conn(who[wi], addrs[ai])
		l, err := t.HandleSession(ctx, c)
		rt.Assert("session yields a link", err == nil && l != nil && l.GetRemotePeer() == who[wi].id)
		links = append(links, l)
		conns = append(conns, c)
		linkAddr = append(linkAddr, ai)
		if rt.Choose("settle", 2) == 1 {
			rt.Quiesce()
		}
	}
	rt.Quiesce()
	// optionally a new session from the same address arrives while the transport is reporting a loss to
	// its handler (between its "is this link still current" check and the end of the loss handling)
	if rt.Choose("sessionDuringLossCallback", 2) == 1 {
		h.onLost = func() {
			ai := linkAddr[len(linkAddr)-1]
			c := c05Conn(X, addrs[ai])
			l, err := t.HandleSession(ctx, c)
			rt.Assert("session yields a link", err == nil && l != nil)
			links = append(links, l)
			conns = append(conns, c)
			linkAddr = append(linkAddr, ai)
		}
	}
	// losses reported by the sessions, in any order (a usurped link was already closed by the transport)
	nl := rt.IntRange("losses", 0, nsess)
	for k := 0; k < nl; k++ {
		i := rt.Choose("lose", nsess)
		if i >= len(links) {
			continue
		}
		if lost[links[i]] {
			continue
		}
		lost[links[i]] = true
		_ = links[i].Close()
		rt.Quiesce()
	}
	// specification: per address the newest session not lost
	for ai, as := range addrs {
		var want *Link
		for i := range links {
			if linkAddr[i] == ai {
				want = links[i] // newest so far
			}
		}
		if want != nil && lost[want] {
			want = nil
		}
		got, ok := t.LookupLinkWithAddr(as)
		if want == nil {
			rt.Assert("an address whose newest link was lost has no link", !ok)
		} else {
			rt.Reach("address has a live link")
			rt.Assert("the address table holds the newest live link of the address", ok && got == want)
			reportedLost := false
			for _, o := range h.lost {
				if o == want {
					reportedLost = true
				}
			}
			rt.Assert("a live link is not reported lost", !reportedLost)
			rt.Assert("a live link's connection is not closed by the transport", rt.QuicConnClosed(conns[indexOfLink(links, want)]) == 0)
		}
	}
	for i, l := range links {
		live := false
		for ai, as := range addrs {
			if got, ok := t.LookupLinkWithAddr(as); ok && got == l && linkAddr[i] == ai {
				live = true
			}
		}
		if !live {
			rt.Assert("a link that left the table had its connection closed", rt.QuicConnClosed(conns[i]) > 0)
		}
	}
	rt.Reach("end")
}

func indexOfLink(ls []*Link, l *Link) int {
	for i := range ls {
		if ls[i] == l {
			return i
		}
	}
	return -1
}
