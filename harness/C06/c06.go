package transport_controller

import (
	"context"
	"io"

	"github.com/aperturerobotics/bifrost/link"
	"github.com/aperturerobotics/bifrost/peer"
	"github.com/aperturerobotics/bifrost/stream"
	"github.com/aperturerobotics/bifrost/transport"
	"github.com/aperturerobotics/controllerbus/bus"
	"github.com/aperturerobotics/controllerbus/controller"
	"github.com/aperturerobotics/controllerbus/directive"
	"github.com/sirupsen/logrus"
	rt "github.com/aperturerobotics/bifrost/zz_verifrt"
)

// ---- doubles shared by the transport-controller harnesses (C04, C05, C06)

// tcLink is a model link. The UUID and peers are fixed for the life of the link (the interface's
// contract) unless uuidAfter is armed: then GetUUID changes once, after `uuidCalls` calls.
type tcLink struct {
	link.Link
	name      string
	uuid      uint64
	uuid2     uint64
	flip      bool
	local     peer.ID
	remote    peer.ID
	closed    int
	closeCh   chan struct{}
	acceptErr error
}

func (l *tcLink) GetUUID() uint64 {
	if l.flip {
		return l.uuid2
	}
	return l.uuid
}
func (l *tcLink) GetTransportUUID() uint64       { return 7 }
func (l *tcLink) GetRemoteTransportUUID() uint64 { return 8 }
func (l *tcLink) GetRemotePeer() peer.ID         { return l.remote }
func (l *tcLink) GetLocalPeer() peer.ID          { return l.local }
func (l *tcLink) Close() error {
	l.closed++
	if l.closed == 1 && l.closeCh != nil {
		close(l.closeCh)
	}
	return nil
}
func (l *tcLink) AcceptStream() (stream.Stream, stream.OpenOpts, error) {
	<-l.closeCh
	return nil, stream.OpenOpts{}, io.EOF
}

type tcRef struct{ released int }

func (r *tcRef) Release() { r.released++ }

type tcInst struct {
	directive.Instance
	dir       directive.Directive
	disposeCb []func()
	closedIfU int
}

func (i *tcInst) AddDisposeCallback(cb func()) func() {
	i.disposeCb = append(i.disposeCb, cb)
	return func() {}
}
func (i *tcInst) CloseIfUnreferenced(inclWeak bool) bool { i.closedIfU++; return true }
func (i *tcInst) GetDirective() directive.Directive    { return i.dir }

type tcBus struct {
	bus.Bus
	added []directive.Directive
	insts []*tcInst
	refs  []*tcRef
}

func (b *tcBus) AddDirective(dir directive.Directive, h directive.ReferenceHandler) (directive.Instance, directive.Reference, error) {
	i, r := &tcInst{dir: dir}, &tcRef{}
	b.added = append(b.added, dir)
	b.insts = append(b.insts, i)
	b.refs = append(b.refs, r)
	return i, r, nil
}

type tcTransport struct {
	transport.Transport
	id peer.ID
}

func (t *tcTransport) GetUUID() uint64    { return 7 }
func (t *tcTransport) GetPeerID() peer.ID { return t.id }

// tcPeers is the peer universe: index 0 is the controller's own peer.
var tcPeers = []peer.ID{"\x00\x01S", "\x00\x01P", "\x00\x01Q", "\x00\x01R"}

type tcWorld struct {
	ctx    context.Context
	c      *Controller
	b      *tcBus
	tpt    *tcTransport
	h      *transportHandler
	ghost  []*tcLink // G: links currently established according to the specification
	everIn []*tcLink // links that were in G at some time
}

func tcNewWorld() *tcWorld {
	w := &tcWorld{ctx: context.Background(), b: &tcBus{}, tpt: &tcTransport{id: tcPeers[0]}}
	// the controller is configured without a peer-id constraint (it uses whichever peer the bus has): the
	// resolved identity is c.peerID, set below as Execute does
	w.c = NewController(logrus.NewEntry(logrus.New()), w.b, &controller.Info{Id: "tc"}, "", false, nil)
	w.c.execCtx = w.ctx
	w.c.peerID = tcPeers[0]
	w.c.tpt = w.tpt
	w.h = newTransportHandler(w.ctx, w.c)
	w.h.tpt.SetResult(w.tpt, nil)
	return w
}

func (w *tcWorld) newLink(name string, uuid uint64, remote peer.ID) *tcLink {
	return &tcLink{name: name, uuid: uuid, local: tcPeers[0], remote: remote, closeCh: make(chan struct{})}
}

// install places a link into both tables directly (a state satisfying the invariant by construction).
func (w *tcWorld) install(l *tcLink) {
	_, cancel := context.WithCancel(w.ctx)
	el := &establishedLink{le: w.c.le, c: w.c, lnk: l, mlnk: newMountedLink(w.c, w.tpt, l), tpt: w.tpt, di: &tcInst{}, cancel: cancel}
	w.c.links[l.uuid] = el
	w.c.linksByPeerID[l.remote] = append(w.c.linksByPeerID[l.remote], el)
	w.ghost = append(w.ghost, l)
	w.everIn = append(w.everIn, l)
}

func (w *tcWorld) inGhost(l link.Link) bool {
	for _, g := range w.ghost {
		if link.Link(g) == l {
			return true
		}
	}
	return false
}

func (w *tcWorld) dropGhost(l *tcLink) {
	var out []*tcLink
	for _, g := range w.ghost {
		if g != l {
			out = append(out, g)
		}
	}
	w.ghost = out
}

// checkInv asserts the representation invariant Inv_links and that the tables describe exactly G.
func (w *tcWorld) checkInv(tag string) {
	c := w.c
	n := 0
	for k, el := range c.links {
		n++
		ok := el != nil && el.lnk != nil
		rt.Assert(tag+": every links entry holds a link", ok)
		if !ok {
			continue
		}
		rt.Assert(tag+": links is keyed by the link's UUID", el.lnk.GetUUID() == k)
		rt.Assert(tag+": every link in the table is one the transport reported and has not lost", w.inGhost(el.lnk))
		rt.Assert(tag+": no link to the local peer", el.lnk.GetRemotePeer() != c.peerID)
		found := 0
		for _, pe := range c.linksByPeerID[el.lnk.GetRemotePeer()] {
			if pe == el {
				found++
			}
		}
		rt.Assert(tag+": every link is listed exactly once under its remote peer", found == 1)
	}
	rt.Assert(tag+": the table holds exactly the live links", n == len(w.ghost))
	m := 0
	for p, l := range c.linksByPeerID {
		rt.Assert(tag+": no empty per-peer list", len(l) > 0)
		for _, el := range l {
			m++
			ok := el != nil && el.lnk != nil
			rt.Assert(tag+": per-peer list holds links", ok)
			if !ok {
				continue
			}
			rt.Assert(tag+": per-peer list is keyed by the remote peer", el.lnk.GetRemotePeer() == p)
			rt.Assert(tag+": per-peer entries are in the uuid table", c.links[el.lnk.GetUUID()] == el)
		}
	}
	rt.Assert(tag+": both tables have the same number of links", m == n)
	// the public view
	for _, p := range tcPeers {
		got := c.GetPeerLinks(p)
		want := 0
		for _, g := range w.ghost {
			if g.remote == p {
				want++
				seen := 0
				for _, x := range got {
					if x == link.Link(g) {
						seen++
					}
				}
				rt.Assert(tag+": GetPeerLinks reports every live link of the peer once", seen == 1)
			}
		}
		rt.Assert(tag+": GetPeerLinks reports only live links of that peer", len(got) == want)
	}
	// everything that left G was closed
	for _, l := range w.everIn {
		if !w.inGhost(l) {
			rt.Assert(tag+": a link removed from the tables was closed", l.closed > 0)
		} else {
			rt.Assert(tag+": a live link is not closed by the controller", l.closed == 0)
		}
	}
}

// tcPreState builds an arbitrary valid state with 0..max links over the peer universe.
func tcPreState(w *tcWorld, max int) {
	n := rt.IntRange("links", 0, max)
	for i := 0; i < n; i++ {
		u := rt.U64("uuid")
		for _, g := range w.ghost {
			rt.Assume(g.uuid != u)
		}
		p := tcPeers[1+rt.Choose("peer", 3)]
		w.install(w.newLink("pre", u, p))
	}
}

// VerifC06Step: one link event from every valid state of the tables.
func VerifC06Step() {
	max := 2
	if rt.Tier() > 0 {
		max = 3
	}
	rt.SchedBound(0, false)
	w := tcNewWorld()
	tcPreState(w, max)
	w.checkInv("pre")
	tcStep(w, "step")
	rt.Quiesce()
	w.checkInv("post")
	rt.Reach("end")
}

// tcStep performs one symbolic link event and updates the ghost set per the specification.
func tcStep(w *tcWorld, tag string) {
	switch rt.Choose(tag+":event", 4) {
	case 0: // established: a link the controller has not seen, arbitrary UUID (may collide) and peer (may be self)
		u := rt.U64("newuuid")
		p := tcPeers[rt.Choose("newpeer", 4)]
		l := w.newLink("new", u, p)
		var collided *tcLink
		for _, g := range w.ghost {
			if g.uuid == u {
				collided = g
			}
		}
		w.h.HandleLinkEstablished(l)
		if p == tcPeers[0] {
			rt.Reach("self-dial")
			w.everIn = append(w.everIn, l) // must be closed
		} else {
			if collided != nil {
				rt.Reach("uuid collision replaces the old link")
				w.dropGhost(collided)
			}
			w.ghost = append(w.ghost, l)
			w.everIn = append(w.everIn, l)
		}
	case 1: // established again for a link already in the tables
		if len(w.ghost) == 0 {
			return
		}
		l := w.ghost[rt.Choose("dup", len(w.ghost))]
		w.h.HandleLinkEstablished(l)
		rt.Reach("duplicate established")
	case 2: // lost: a link currently in the tables
		if len(w.ghost) == 0 {
			return
		}
		l := w.ghost[rt.Choose("lose", len(w.ghost))]
		w.h.HandleLinkLost(l)
		w.dropGhost(l)
		rt.Reach("lost live link")
	case 3: // lost: a link that is not in the tables (already replaced, or never established); its UUID may
		// equal that of a live link (a re-established link re-uses the UUID of the one it replaced)
		u := rt.U64("staleuuid")
		p := tcPeers[1+rt.Choose("stalepeer", 3)]
		l := w.newLink("stale", u, p)
		l.closed = 1
		hit := false
		for _, g := range w.ghost {
			if g.uuid == u {
				hit = true
			}
		}
		if hit {
			rt.Reach("late loss of a replaced link sharing a live link's uuid")
		}
		rt.KnownFinding("C06-lost-removes-newer-link-by-uuid", hit)
		w.h.HandleLinkLost(l)
	}
}

// VerifC06History: the tables after every history of up to 3 (quick) / 4 (thorough) events starting
// from the empty controller, including the usurp-then-late-loss history.
func VerifC06History() {
	k := 3
	if rt.Tier() > 0 {
		k = 4
	}
	rt.SchedBound(0, false)
	w := tcNewWorld()
	n := rt.IntRange("events", 1, k)
	for i := 0; i < n; i++ {
		tcStep(w, "h")
		if rt.Choose("settle", 2) == 1 {
			rt.Quiesce()
		}
	}
	rt.Quiesce()
	w.checkInv("final")
	rt.Reach("end")
}

// VerifC06UUIDChanged: the slow path of HandleLinkLost: a link whose GetUUID changed after it was
// established is still removed (by identity) and closed, and no other link is touched.
func VerifC06UUIDChanged() {
	rt.SchedBound(0, false)
	w := tcNewWorld()
	tcPreState(w, 2)
	u := rt.U64("uuid")
	for _, g := range w.ghost {
		rt.Assume(g.uuid != u)
	}
	l := w.newLink("flip", u, tcPeers[1+rt.Choose("peer", 3)])
	w.h.HandleLinkEstablished(l)
	w.ghost = append(w.ghost, l)
	w.everIn = append(w.everIn, l)
	rt.Quiesce()
	w.checkInv("pre")
	l.uuid2 = rt.U64("uuid2")
	rt.Assume(l.uuid2 != u)
	for _, g := range w.ghost {
		rt.Assume(g.uuid != l.uuid2)
	}
	l.flip = true
	w.h.HandleLinkLost(l)
	rt.Quiesce()
	l.flip = false
	w.dropGhost(l)
	for _, el := range w.c.links {
		rt.Assert("the link whose uuid changed is no longer in the uuid table", el.lnk != link.Link(l))
	}
	rt.Assert("it was closed", l.closed > 0)
	for _, g := range w.ghost {
		rt.Assert("other links are untouched", g.closed == 0 && w.c.links[g.uuid] != nil && w.c.links[g.uuid].lnk == link.Link(g))
	}
	rt.Reach("end")
}

// VerifC06Yielded: the EstablishLinkWithPeer values a watching request holds are, at quiescence after
// every link event, exactly the live links to the requested peer: a lost link is not reported again.
func VerifC06Yielded() { c04Resolve(true) }
