package stream_srpc_server

import (
	"context"

	"github.com/aperturerobotics/bifrost/link"
	"github.com/aperturerobotics/bifrost/peer"
	"github.com/aperturerobotics/bifrost/protocol"
	"github.com/aperturerobotics/controllerbus/directive"
	"github.com/sirupsen/logrus"
	rt "github.com/aperturerobotics/bifrost/zz_verifrt"
)

// c34DI is a directive instance double that only knows its directive.
type c34DI struct {
	directive.Instance
	d directive.Directive
}

func (d c34DI) GetDirective() directive.Directive { return d.d }

type c34Other struct{ directive.Directive }

func c34Peer(tag string) peer.ID {
	switch rt.Choose(tag, 3) {
	case 1:
		return peer.ID("\x00\x01A")
	case 2:
		return peer.ID("\x00\x01B")
	}
	return peer.ID("")
}

func c34Stream() (link.HandleMountedStream, string, peer.ID, peer.ID) {
	pid := rt.String("streamProtocol", 0, 2)
	local := c34Peer("streamLocal")
	remote := c34Peer("streamRemote")
	return link.NewHandleMountedStream(protocol.ID(pid), local, remote), pid, local, remote
}

// VerifC34SrpcServer: the RPC server: protocol in its list, and local peer in its peer list if any.
func VerifC34SrpcServer() {
	var pids []protocol.ID
	np := rt.IntRange("nProtocols", 0, 2)
	for i := 0; i < np; i++ {
		pids = append(pids, protocol.ID(rt.String("cfgProtocol", 0, 2)))
	}
	var peers []string
	var peerIDs []peer.ID
	nq := rt.IntRange("nPeers", 0, 2)
	for i := 0; i < nq; i++ {
		p := c34Peer("cfgPeer")
		peerIDs = append(peerIDs, p)
		peers = append(peers, p.String())
	}
	s := &Server{le: logrus.NewEntry(logrus.New()), protocolIDs: pids, peerIDs: peers}
	d, pid, local, _ := c34Stream()
	res, err := s.HandleDirective(context.Background(), c34DI{d: d})
	rt.Assert("no error", err == nil)
	inP := false
	for _, p := range pids {
		inP = rt.Or(inP, string(p) == pid)
	}
	inQ := false
	for _, p := range peerIDs {
		if p == local {
			inQ = true
		}
	}
	want := rt.And(inP, len(peers) == 0 || inQ)
	rt.Assert("offers a resolver iff protocol is served and the local peer is served", (len(res) != 0) == want)
	res, err = s.HandleDirective(context.Background(), c34DI{d: c34Other{}})
	rt.Assert("other directives are ignored", err == nil && len(res) == 0)
	rt.Reach("end")
}
