package link_solicit_controller

import (
	"context"

	"github.com/aperturerobotics/bifrost/link"
	"github.com/aperturerobotics/bifrost/peer"
	"github.com/aperturerobotics/bifrost/protocol"
	"github.com/aperturerobotics/controllerbus/directive"
	"github.com/sirupsen/logrus"
	rt "github.com/aperturerobotics/bifrost/zz_verifrt"
)

// c34DI is a directive instance double that only knows its directive.
type c34DI struct {
	directive.Instance
	d directive.Directive
}

func (d c34DI) GetDirective() directive.Directive { return d.d }

type c34Other struct{ directive.Directive }

func c34Peer(tag string) peer.ID {
	switch rt.Choose(tag, 3) {
	case 1:
		return peer.ID("\x00\x01A")
	case 2:
		return peer.ID("\x00\x01B")
	}
	return peer.ID("")
}

func c34Stream() (link.HandleMountedStream, string, peer.ID, peer.ID) {
	pid := rt.String("streamProtocol", 0, 2)
	local := c34Peer("streamLocal")
	remote := c34Peer("streamRemote")
	return link.NewHandleMountedStream(protocol.ID(pid), local, remote), pid, local, remote
}

// VerifC34Solicit: the solicitation controller takes only its control protocol and solicited
// stream protocol ids.
func VerifC34Solicit() {
	c := &Controller{le: logrus.NewEntry(logrus.New()), }
	var pid string
	switch rt.Choose("kind", 5) {
	case 0:
		pid = string(ControlProtocolID)
	case 1:
		pid = SolicitStreamPrefix + rt.String("hash", 0, 2)
	case 2:
		pid = rt.String("other", 0, 3)
	case 3: // the marker appears, but not at the start
		pid = rt.String("lead", 1, 2) + SolicitStreamPrefix + rt.String("hash", 0, 1)
	case 4: // the control protocol id followed by something
		pid = string(ControlProtocolID) + rt.String("tail", 1, 2)
	}
	d := link.NewHandleMountedStream(protocol.ID(pid), c34Peer("l"), c34Peer("r"))
	res, err := c.HandleDirective(context.Background(), c34DI{d: d})
	rt.Assert("no error", err == nil)
	isPrefix := len(pid) >= len(SolicitStreamPrefix) && pid[:len(SolicitStreamPrefix)] == SolicitStreamPrefix
	rt.Assert("offers a handler iff control protocol or solicited-stream prefix", (len(res) != 0) == (pid == string(ControlProtocolID) || isPrefix))
	res, err = c.HandleDirective(context.Background(), c34DI{d: c34Other{}})
	rt.Assert("other directives are ignored", err == nil && len(res) == 0)
	rt.Reach("end")
}
