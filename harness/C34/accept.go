package stream_api_accept

import (
	"context"
	"crypto/ed25519"

	"github.com/aperturerobotics/bifrost/crypto"

	"github.com/aperturerobotics/bifrost/link"
	"github.com/aperturerobotics/bifrost/peer"
	"github.com/aperturerobotics/bifrost/protocol"
	"github.com/aperturerobotics/controllerbus/directive"
	"github.com/sirupsen/logrus"
	rt "github.com/aperturerobotics/bifrost/zz_verifrt"
)

// c34DI is a directive instance double that only knows its directive.
type c34DI struct {
	directive.Instance
	d directive.Directive
}

func (d c34DI) GetDirective() directive.Directive { return d.d }

type c34Other struct{ directive.Directive }

func c34Peer(tag string) peer.ID {
	switch rt.Choose(tag, 3) {
	case 1:
		return peer.ID("\x00\x01A")
	case 2:
		return peer.ID("\x00\x01B")
	}
	return peer.ID("")
}

func c34Stream() (link.HandleMountedStream, string, peer.ID, peer.ID) {
	pid := rt.String("streamProtocol", 0, 2)
	local := c34Peer("streamLocal")
	remote := c34Peer("streamRemote")
	return link.NewHandleMountedStream(protocol.ID(pid), local, remote), pid, local, remote
}

// VerifC34Accept: the API accept service: protocol must match, local peer filter, remote peer list.
func VerifC34Accept() {
	cfgPid := rt.String("cfgProtocol", 0, 2)
	cfgLocal := c34Peer("cfgLocal")
	var remotes []peer.ID
	nr := rt.IntRange("nRemote", 0, 2)
	for i := 0; i < nr; i++ {
		remotes = append(remotes, c34Peer("cfgRemote"))
	}
	c := &Controller{le: logrus.NewEntry(logrus.New()), conf: &Config{}, protocolID: protocol.ID(cfgPid), localPeerID: cfgLocal, remotePeerIDs: remotes}
	d, pid, local, remote := c34Stream()
	res, err := c.HandleDirective(context.Background(), c34DI{d: d})
	rt.Assert("no error", err == nil)
	inList := false
	for _, r := range remotes {
		if r == remote {
			inList = true
		}
	}
	want := cfgPid == pid && (cfgLocal == "" || cfgLocal == local) && (len(remotes) == 0 || inList)
	rt.Assert("offers a resolver iff protocol, local peer and remote list admit the stream", (len(res) != 0) == want)
	res, err = c.HandleDirective(context.Background(), c34DI{d: c34Other{}})
	rt.Assert("other directives are ignored", err == nil && len(res) == 0)
	rt.Reach("end")
}

func c34RealPeer(b byte) peer.ID {
	seed := make([]byte, 32)
	seed[0] = b
	std := ed25519.NewKeyFromSeed(seed)
	_, pub, err := crypto.KeyPairFromStdKey(&std)
	if err != nil {
		panic(err)
	}
	id, err := peer.IDFromPublicKey(pub)
	if err != nil {
		panic(err)
	}
	return id
}

// VerifC34AcceptConfigured: the same filter, with the controller built from its configuration (text
// peer ids) by NewController: the configured local peer and remote list are the ones enforced.
func VerifC34AcceptConfigured() {
	ids := []peer.ID{c34RealPeer(1), c34RealPeer(2)}
	conf := &Config{ProtocolId: "p"}
	var cfgLocal peer.ID
	if k := rt.Choose("cfgLocal", 3); k > 0 {
		cfgLocal = ids[k-1]
		conf.LocalPeerId = cfgLocal.String()
	}
	var remotes []peer.ID
	if k := rt.Choose("cfgRemote", 3); k > 0 {
		remotes = append(remotes, ids[k-1])
		conf.RemotePeerIds = []string{ids[k-1].String()}
	}
	c, err := NewController(logrus.NewEntry(logrus.New()), conf, nil)
	rt.Assert("configuration accepted", err == nil && c != nil)
	pid := []string{"p", "q"}[rt.Choose("streamProtocol", 2)]
	local := ids[rt.Choose("streamLocal", 2)]
	remote := ids[rt.Choose("streamRemote", 2)]
	res, err := c.HandleDirective(context.Background(), c34DI{d: link.NewHandleMountedStream(protocol.ID(pid), local, remote)})
	rt.Assert("no error", err == nil)
	want := pid == "p" && (cfgLocal == "" || cfgLocal == local) && (len(remotes) == 0 || remotes[0] == remote)
	rt.Assert("a configured controller offers a resolver iff protocol, local peer and remote list admit the stream", (len(res) != 0) == want)
	rt.Reach("end")
}
