package stream_forwarding

import (
	"context"

	"github.com/aperturerobotics/bifrost/link"
	"github.com/aperturerobotics/bifrost/peer"
	"github.com/aperturerobotics/bifrost/protocol"
	"github.com/aperturerobotics/controllerbus/directive"
	"github.com/sirupsen/logrus"
	rt "github.com/aperturerobotics/bifrost/zz_verifrt"
)

// c34DI is a directive instance double that only knows its directive.
type c34DI struct {
	directive.Instance
	d directive.Directive
}

func (d c34DI) GetDirective() directive.Directive { return d.d }

type c34Other struct{ directive.Directive }

func c34Peer(tag string) peer.ID {
	switch rt.Choose(tag, 3) {
	case 1:
		return peer.ID("\x00\x01A")
	case 2:
		return peer.ID("\x00\x01B")
	}
	return peer.ID("")
}

func c34Stream() (link.HandleMountedStream, string, peer.ID, peer.ID) {
	pid := rt.String("streamProtocol", 0, 2)
	local := c34Peer("streamLocal")
	remote := c34Peer("streamRemote")
	return link.NewHandleMountedStream(protocol.ID(pid), local, remote), pid, local, remote
}

// VerifC34Forwarding: the forwarding service offers to handle a stream only if protocol (when configured) and
// local peer (when configured) match; other directives are ignored.
func VerifC34Forwarding() {
	cfgPid := rt.String("cfgProtocol", 0, 2)
	cfgLocal := c34Peer("cfgLocal")
	c := &Controller{le: logrus.NewEntry(logrus.New()), conf: &Config{ProtocolId: cfgPid}, localPeerID: cfgLocal}
	d, pid, local, _ := c34Stream()
	res, err := c.HandleDirective(context.Background(), c34DI{d: d})
	rt.Assert("no error", err == nil)
	want := (cfgPid == "" || cfgPid == pid) && (cfgLocal == "" || cfgLocal == local)
	rt.Assert("offers a resolver iff protocol and local peer filters admit the stream", (len(res) != 0) == want)
	res, err = c.HandleDirective(context.Background(), c34DI{d: c34Other{}})
	rt.Assert("other directives are ignored", err == nil && len(res) == 0)
	rt.Reach("end")
}
