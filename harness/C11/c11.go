package confparse

import (
	"encoding/pem"
	"crypto/ed25519"

	"github.com/aperturerobotics/bifrost/crypto"
	"github.com/aperturerobotics/bifrost/keypem"
	"github.com/aperturerobotics/bifrost/peer"
	rt "github.com/aperturerobotics/bifrost/zz_verifrt"
)

func c11Key(tag string) (crypto.PrivKey, crypto.PubKey) {
	seed := rt.Bytes(tag, 32, 32)
	std := ed25519.NewKeyFromSeed(seed)
	k, pub, err := crypto.KeyPairFromStdKey(&std)
	rt.Assert("key from seed", err == nil)
	return k, pub
}

func c11SamePriv(label string, orig, got crypto.PrivKey, err error) {
	rt.Assert(label+": decodes", err == nil && got != nil)
	rt.Assert(label+": equals the original", got.Equals(orig) && orig.Equals(got))
	rt.Assert(label+": same public key", got.GetPublic().Equals(orig.GetPublic()))
	id1, e1 := peer.IDFromPrivateKey(orig)
	id2, e2 := peer.IDFromPrivateKey(got)
	rt.Assert(label+": same peer id", e1 == nil && e2 == nil && id1 == id2)
}

// VerifC11Private: a private key survives protobuf, PEM, config-string and std-key conversions.
func VerifC11Private() {
	priv, pub := c11Key("seed")
	// protobuf
	bin, err := crypto.MarshalPrivateKey(priv)
	rt.Assert("protobuf marshal", err == nil)
	got, err := crypto.UnmarshalPrivateKey(bin)
	c11SamePriv("protobuf", priv, got, err)
	// PEM
	pm, err := MarshalPrivateKeyPEM(priv)
	rt.Assert("pem marshal", err == nil)
	got, err = ParsePrivateKeyPEM(pm)
	c11SamePriv("pem", priv, got, err)
	k2, p2, err := keypem.ParseKeyPem(pm)
	rt.Assert("ParseKeyPem on a private key returns both halves", err == nil && k2 != nil && k2.Equals(priv) && p2 != nil && p2.Equals(pub))
	// config string (base58)
	txt, err := MarshalPrivateKey(priv)
	rt.Assert("config marshal", err == nil)
	got, err = ParsePrivateKey(txt)
	c11SamePriv("config string", priv, got, err)
	// standard library key
	std, err := crypto.PrivKeyToStdKey(priv)
	rt.Assert("to std", err == nil)
	got, gp, err := crypto.KeyPairFromStdKey(std)
	c11SamePriv("std key", priv, got, err)
	rt.Assert("std key public half", gp != nil && gp.Equals(pub))
	rt.Reach("end")
}

// VerifC11Public: a public key survives protobuf, PEM and config-string encodings.
func VerifC11Public() {
	_, pub := c11Key("seed")
	bin, err := crypto.MarshalPublicKey(pub)
	rt.Assert("protobuf marshal", err == nil)
	got, err := crypto.UnmarshalPublicKey(bin)
	rt.Assert("protobuf round trip", err == nil && got.Equals(pub) && pub.Equals(got))
	pm, err := MarshalPublicKeyPEM(pub)
	rt.Assert("pem marshal", err == nil)
	got, err = ParsePublicKeyPEM(pm)
	rt.Assert("pem round trip", err == nil && got != nil && got.Equals(pub))
	txt, err := MarshalPublicKey(pub)
	rt.Assert("config marshal", err == nil)
	got, err = ParsePublicKey(txt)
	rt.Assert("config string round trip", err == nil && got != nil && got.Equals(pub))
	// a public-key PEM is not a private key
	k, err := ParsePrivateKeyPEM(pm)
	rt.Assert("wrong PEM block type is an error", k == nil && err != nil)
	id, e := peer.IDFromPublicKey(pub)
	rt.Assert("validate against own id", e == nil && ValidatePubKey(txt, id) == nil)
	rt.Reach("end")
}

// VerifC11Forms: well-framed key messages whose payload has every interesting length.
func VerifC11Forms() {
	data := rt.BytesOfLen("keydata", 0, 31, 32, 33, 63, 64, 65, 95, 96, 97)
	kt := crypto.KeyType(rt.IntRange("keytype", 0, 2))
	privBin, err := (&crypto.PrivateKey{KeyType: kt, Data: data}).MarshalVT()
	rt.Assert("frame", err == nil)
	k, err := crypto.UnmarshalPrivateKey(privBin)
	rt.Assert("private: key or error", (k != nil) != (err != nil))
	redundantOK := len(data) == 96 && rt.BytesEq(data[32:64], data[64:96])
	wantPriv := kt == crypto.KeyType_Ed25519 && (len(data) == 64 || redundantOK)
	rt.Assert("private key accepted iff Ed25519 with 64 bytes, or 96 bytes with a matching redundant public key", (err == nil) == wantPriv)
	if err == nil {
		raw, _ := k.Raw()
		rt.Assert("private key material is the first 64 bytes", rt.BytesEq(raw, data[:64]))
	}
	pubBin, err := (&crypto.PublicKey{KeyType: kt, Data: data}).MarshalVT()
	rt.Assert("frame", err == nil)
	p, err := crypto.UnmarshalPublicKey(pubBin)
	rt.Assert("public: key or error", (p != nil) != (err != nil))
	rt.Assert("public key accepted iff Ed25519 with 32 bytes", (err == nil) == (kt == crypto.KeyType_Ed25519 && len(data) == 32))
	rt.Reach("end")
}

// VerifC11Total: the text parsers return a key, "absent" for blank input, or an error.
func VerifC11Total() {
	n := 3
	if rt.Tier() > 0 {
		n = 4
	}
	s := rt.String("txt", 0, n)
	k, err := ParsePrivateKey(s)
	rt.Assert("private: not both key and error", !(k != nil && err != nil))
	p, err2 := ParsePublicKey(s)
	rt.Assert("public: not both key and error", !(p != nil && err2 != nil))
	rt.Reach("end")
}

// VerifC11PEMTotal: PEM-looking input of every kind — too short to hold a block, holding no block, or
// holding a well-formed block of arbitrary type (incl. the two key types) with an arbitrary body — makes
// every PEM parser return a key or an error (never neither for non-blank input in the config parsers,
// never a panic anywhere).
func VerifC11PEMTotal() {
	var txt []byte
	constructed := false
	switch rt.Choose("shape", 3) {
	case 2: // a real PEM document of one of the key types (or another type) around an arbitrary short body
		typ := []string{keypem.PrivPemType, keypem.PubPemType, "CERTIFICATE"}[rt.Choose("blockType", 3)]
		txt = pem.EncodeToMemory(&pem.Block{Type: typ, Bytes: rt.Bytes("blockBody", 0, 4)})
		constructed = true
	case 0: // starts like a PEM document but is cut short
		txt = append([]byte("-----BEGIN"), rt.Bytes("tail", 0, 2)...)
	case 1: // long enough to hold a block: the decoder finds none, or one of arbitrary type and body
		txt = append([]byte("-----BEGIN"), rt.Bytes("body", 30, 30)...)
	}
	s := string(txt)
	// one parser per path (the PEM stub makes its choices per call); the string-level parsers trim and
	// sniff the text byte by byte, so they get the short shape only
	np := 7
	if len(txt) > 12 || constructed {
		np = 5
	}
	switch rt.Choose("parser", np) {
	case 0:
		priv, pub, err := keypem.ParseKeyPem(txt)
		rt.Assert("ParseKeyPem: not both a key and an error", !((priv != nil || pub != nil) && err != nil))
	case 1:
		p2, err := keypem.ParsePubKeyPem(txt)
		rt.Assert("ParsePubKeyPem: not both a key and an error", !(p2 != nil && err != nil))
	case 2:
		k2, err := keypem.ParsePrivKeyPem(txt)
		rt.Assert("ParsePrivKeyPem: not both a key and an error", !(k2 != nil && err != nil))
	case 3:
		k, err := ParsePrivateKeyPEM(txt)
		rt.Assert("ParsePrivateKeyPEM of non-empty text: a key or an error", (k != nil) != (err != nil))
	case 4:
		p, err := ParsePublicKeyPEM(txt)
		rt.Assert("ParsePublicKeyPEM of non-empty text: a key or an error", (p != nil) != (err != nil))
	case 5:
		k, err := ParsePrivateKey(s)
		rt.Assert("ParsePrivateKey of PEM-looking text: a key or an error", (k != nil) != (err != nil))
	case 6:
		p, err := ParsePublicKey(s)
		rt.Assert("ParsePublicKey of PEM-looking text: a key or an error", (p != nil) != (err != nil))
	}
	rt.Reach("end")
}
