package tptaddr_static

import (
	"github.com/aperturerobotics/bifrost/crypto"
	"github.com/aperturerobotics/bifrost/peer"
	rt "github.com/aperturerobotics/bifrost/zz_verifrt"
)

func c38PeerText(seed byte) string {
	k := make([]byte, 32)
	for i := range k {
		k[i] = seed + byte(i)
	}
	pk, _ := crypto.UnmarshalEd25519PublicKey(k)
	id, _ := peer.IDFromPublicKey(pk)
	return id.String()
}

// VerifC38PeerAddressMap: each peer maps to the sorted, duplicate-free set of exactly its addresses.
func VerifC38PeerAddressMap() {
	peers := []string{c38PeerText(1), c38PeerText(101)}
	max := 3
	if rt.Tier() > 0 {
		max = 4
	}
	k := rt.IntRange("entries", 0, max)
	type ent struct {
		p    int
		addr string
	}
	ents := make([]ent, k)
	in := make([]string, k)
	for i := range ents {
		p := rt.Choose("peer", 2)
		c := rt.U8("addrbyte")
		rt.Assume(c >= 'a' && c <= 'c')
		a := "udp|" + string([]byte{c})
		ents[i] = ent{p, a}
		pad := ""
		if rt.Choose("pad", 2) == 1 {
			pad = " "
		}
		in[i] = pad + peers[p] + pad + "|" + pad + a + pad
	}
	m, errs := ParsePeerAddressMap(in)
	rt.Assert("well-formed entries produce no errors", len(errs) == 0)
	for p := range peers {
		got := m[peers[p]]
		for i := 0; i+1 < len(got); i++ {
			rt.Assert("addresses strictly ascending (sorted, duplicate-free)", got[i] < got[i+1])
		}
		n := 0
		for _, e := range ents {
			if e.p != p {
				continue
			}
			n++
			found := false
			for _, g := range got {
				found = rt.Or(found, g == e.addr)
			}
			rt.Assert("every given address is present", found)
		}
		for _, g := range got {
			found := false
			for _, e := range ents {
				if e.p == p {
					found = rt.Or(found, g == e.addr)
				}
			}
			rt.Assert("no address that was not given for this peer", found)
		}
		if n == 0 {
			rt.Assert("peer without addresses is absent", len(got) == 0)
		}
	}
	rt.Assert("no other peers", len(m) <= 2)
	rt.Reach("end")
}

// VerifC38PeerAddressMapBad: malformed entries are reported, never panic, and do not add addresses.
func VerifC38PeerAddressMapBad() {
	s := rt.String("entry", 0, 3)
	m, errs := ParsePeerAddressMap([]string{s})
	rt.Assert("a 3-byte entry cannot name a peer and a transport address", len(errs) == 1 && len(m) == 0)
	rt.Reach("end")
}
