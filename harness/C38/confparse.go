package confparse

import (
	"github.com/aperturerobotics/bifrost/crypto"
	"github.com/aperturerobotics/bifrost/peer"
	rt "github.com/aperturerobotics/bifrost/zz_verifrt"
	b58 "github.com/mr-tron/base58/base58"
)

// c38ValidUTF8 is Unicode Table 3-7 (well-formed UTF-8 byte sequences) for strings of <= 4 bytes.
func c38ValidUTF8(s string) bool {
	i := 0
	for i < len(s) {
		b0 := s[i]
		rem := len(s) - i
		switch {
		case b0 <= 0x7f:
			i++
		case b0 >= 0xc2 && b0 <= 0xdf:
			if rem < 2 || !c38Cont(s[i+1], 0x80, 0xbf) {
				return false
			}
			i += 2
		case b0 >= 0xe0 && b0 <= 0xef:
			if rem < 3 {
				return false
			}
			lo, hi := byte(0x80), byte(0xbf)
			if b0 == 0xe0 {
				lo = 0xa0
			} else if b0 == 0xed {
				hi = 0x9f
			}
			if !c38Cont(s[i+1], lo, hi) || !c38Cont(s[i+2], 0x80, 0xbf) {
				return false
			}
			i += 3
		case b0 >= 0xf0 && b0 <= 0xf4:
			if rem < 4 {
				return false
			}
			lo, hi := byte(0x80), byte(0xbf)
			if b0 == 0xf0 {
				lo = 0x90
			} else if b0 == 0xf4 {
				hi = 0x8f
			}
			if !c38Cont(s[i+1], lo, hi) || !c38Cont(s[i+2], 0x80, 0xbf) || !c38Cont(s[i+3], 0x80, 0xbf) {
				return false
			}
			i += 4
		default:
			return false
		}
	}
	return true
}

func c38Cont(b, lo, hi byte) bool { return b >= lo && b <= hi }

// VerifC38ProtocolID: a protocol id is accepted exactly when non-empty and valid UTF-8, and is
// returned unchanged.
func VerifC38ProtocolID() {
	n := 3
	if rt.Tier() > 0 {
		n = 4
	}
	s := rt.String("pid", 0, n)
	allowEmpty := rt.Bool("allowEmpty")
	id, err := ParseProtocolID(s, allowEmpty)
	want := len(s) > 0 && c38ValidUTF8(s)
	if len(s) == 0 && allowEmpty {
		rt.Assert("empty allowed when requested", err == nil && id == "")
	} else {
		rt.Assert("accepted iff non-empty valid UTF-8", (err == nil) == want)
	}
	if err == nil {
		rt.Assert("accepted id is the input", string(id) == s)
		rt.Assert("String round-trips", id.String() == s)
	}
	rt.Assert("ValidateProtocolID agrees", (ValidateProtocolID(s, allowEmpty) == nil) == (err == nil))
	rt.Reach("end")
}

// VerifC38ProtocolIDs: list parsing keeps order, drops duplicates only in the unique variant.
func VerifC38ProtocolIDs() {
	k := rt.IntRange("n", 0, 3)
	in := make([]string, k)
	for i := range in {
		in[i] = rt.String("pid", 0, 1)
	}
	allowEmpty := rt.Bool("allowEmpty")
	out, err := ParseProtocolIDs(in, allowEmpty)
	uniq, uerr := ParseProtocolIDsUnique(in, allowEmpty)
	rt.Assert("unique variant fails iff plain variant fails", (err == nil) == (uerr == nil))
	if err == nil {
		rt.Assert("plain variant keeps every entry", len(out) == k)
		for i := range out {
			rt.Assert("plain variant keeps order", string(out[i]) == in[i])
		}
		for i := range uniq {
			for j := i + 1; j < len(uniq); j++ {
				rt.Assert("unique variant has no duplicates", uniq[i] != uniq[j])
			}
		}
		for i := range in {
			found := false
			for j := range uniq {
				found = rt.Or(found, string(uniq[j]) == in[i])
			}
			rt.Assert("unique variant keeps every distinct entry", found)
		}
	}
	rt.Reach("end")
}

// VerifC38PeerID: peer id text parsing is total; formatting then parsing gives the same id.
func VerifC38PeerID() {
	s := rt.String("txt", 0, 5)
	id, err := ParsePeerID(s)
	if len(s) == 0 {
		rt.Assert("empty text is the empty id without error", err == nil && id == "")
	}
	if err == nil && len(s) > 0 {
		rt.Reach("accepted")
		rt.Assert("accepted text re-formats to itself", id.String() == s)
		id2, err2 := ParsePeerID(id.String())
		rt.Assert("format then parse gives the same id", err2 == nil && id2 == id)
	}
	rt.Assert("ValidatePeerID rejects empty and unparsable", (ValidatePeerID(s) == nil) == (err == nil && len(id) != 0))
	// a real identity round-trips
	k := rt.Bytes("key", 32, 32)
	pk, _ := crypto.UnmarshalEd25519PublicKey(k)
	rid, _ := peer.IDFromPublicKey(pk)
	back, err3 := ParsePeerID(rid.String())
	rt.Assert("identity id text round trip", err3 == nil && back == rid)
	rt.Reach("end")
}

// VerifC38PeerIDRaw: text that is valid base58 of arbitrary bytes (including over-long and overflowing
// varints in the multihash header) is either rejected with an error or accepted as exactly those
// bytes; parsing never panics.
func VerifC38PeerIDRaw() {
	n := 11
	if rt.Tier() > 0 {
		n = 13
	}
	raw := rt.Bytes("raw", 1, n)
	s := b58.Encode(raw)
	id, err := ParsePeerID(s)
	if err == nil {
		rt.Reach("accepted")
		rt.Assert("accepted text decodes to the encoded bytes", rt.BytesEq([]byte(id), raw))
		rt.Assert("accepted text re-formats to itself", id.String() == s)
	} else {
		rt.Reach("rejected")
	}
	rt.Assert("ValidatePeerID agrees with ParsePeerID", (ValidatePeerID(s) == nil) == (err == nil))
	rt.Reach("end")
}

// VerifC38EmptyConventions: wrappers map the empty string to "absent" without error.
func VerifC38EmptyConventions() {
	u, err := ParseURL("")
	rt.Assert("empty url", u == nil && err == nil)
	rt.Assert("empty url validation honours allowEmpty", ValidateURL("", true) == nil && ValidateURL("", false) != nil)
	d, err := ParseDuration("")
	rt.Assert("empty duration", d == 0 && err == nil)
	rt.Assert("zero duration marshals to empty", MarshalDuration(0, false) == "")
	ts, err := ParseTimestamp("")
	rt.Assert("empty timestamp", ts == nil && err == nil)
	rt.Assert("nil timestamp marshals to empty", MarshalTimestamp(nil) == "")
	re, err := ParseRegexp("")
	rt.Assert("empty regexp", re == nil && err == nil)
	pk, err := ParsePublicKey(rt.StringOfLen("blank", 0, 1))
	_ = pk
	_ = err
	rt.Reach("end")
}
