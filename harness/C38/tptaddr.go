package tptaddr

import (
	rt "github.com/aperturerobotics/bifrost/zz_verifrt"
)

// VerifC38TptAddr: ParseTptAddr is total, accepts exactly "<non-empty>|<non-empty>" split at the
// first delimiter, and re-joining the parts gives the input back.
func VerifC38TptAddr() {
	n := 4
	if rt.Tier() > 0 {
		n = 5
	}
	s := rt.String("addr", 0, n)
	tid, addr, err := ParseTptAddr(s)
	// reference: position of the first '|'
	pos := -1
	for i := len(s) - 1; i >= 0; i-- {
		if s[i] == '|' {
			pos = i
		}
	}
	want := pos > 0 && pos < len(s)-1
	rt.Assert("accepted iff both sides of the first delimiter are non-empty", (err == nil) == want)
	if err == nil {
		rt.Assert("parts are the two sides", tid == s[:pos] && addr == s[pos+1:])
		rt.Assert("re-joining gives the input", tid+"|"+addr == s)
	} else {
		rt.Assert("rejected input yields empty parts", tid == "" && addr == "")
	}
	rt.Reach("end")
}
