package pubsub_controller

import (
	"context"

	"github.com/aperturerobotics/bifrost/link"
	"github.com/aperturerobotics/bifrost/peer"
	"github.com/aperturerobotics/bifrost/protocol"
	"github.com/aperturerobotics/bifrost/pubsub"
	"github.com/aperturerobotics/bifrost/stream"
	"github.com/aperturerobotics/util/ccontainer"
	"github.com/sirupsen/logrus"
	rt "github.com/aperturerobotics/bifrost/zz_verifrt"
)

type c29PS struct {
	pubsub.PubSub
	added []bool // initiator flag of every AddPeerStream
}

func (p *c29PS) AddPeerStream(tpl pubsub.PeerLinkTuple, initiator bool, ms link.MountedStream) {
	p.added = append(p.added, initiator)
}

type c29Link struct {
	link.MountedLink
	local, remote peer.ID
	opened        []protocol.ID
}

func (l *c29Link) GetLocalPeer() peer.ID  { return l.local }
func (l *c29Link) GetRemotePeer() peer.ID { return l.remote }
func (l *c29Link) GetLinkUUID() uint64    { return 3 }
func (l *c29Link) OpenMountedStream(ctx context.Context, pid protocol.ID, opts stream.OpenOpts) (link.MountedStream, error) {
	l.opened = append(l.opened, pid)
	return &c29MS{pid: pid}, nil
}

type c29MS struct {
	link.MountedStream
	pid protocol.ID
}

func (m *c29MS) GetProtocolID() protocol.ID { return m.pid }

func c29Side(local, remote peer.ID) (*c29Link, *c29PS) {
	ps := &c29PS{}
	var psi pubsub.PubSub = ps
	le := logrus.NewEntry(logrus.New())
	c := &Controller{le: le, protocolID: "bifrost/pubsub", pubSubCtr: ccontainer.NewCContainer(&psi)}
	l := &c29Link{local: local, remote: remote}
	t := &trackedLink{c: c, tpl: pubsub.NewPeerLinkTuple(l), lnk: l, le: le}
	err := t.trackLink(context.Background())
	rt.Assert("tracking a link does not fail", err == nil)
	return l, ps
}

// VerifC29Opener: for every pair of distinct peer ids, exactly one end of a link opens the pubsub
// stream (and registers it as the initiator); the other end opens nothing.
func VerifC29Opener() {
	n := 2
	if rt.Tier() > 0 {
		n = 3
	}
	a := peer.ID(rt.String("a", 1, n))
	b := peer.ID(rt.String("b", 1, n))
	rt.Assume(a != b)
	la, pa := c29Side(a, b)
	lb, pb := c29Side(b, a)
	opensA, opensB := len(la.opened), len(lb.opened)
	rt.Assert("exactly one side opens the pubsub stream", opensA+opensB == 1)
	rt.Assert("the opening side registers the stream as initiator, the other side registers nothing", len(pa.added) == opensA && len(pb.added) == opensB)
	for _, i := range append(pa.added, pb.added...) {
		rt.Assert("the opener is the initiator", i)
	}
	for _, p := range append(la.opened, lb.opened...) {
		rt.Assert("the stream is opened for the pubsub protocol", p == "bifrost/pubsub")
	}
	rt.Reach("end")
}
