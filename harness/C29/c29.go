package floodsub

import (
	"context"
	"crypto/ed25519"

	"github.com/aperturerobotics/bifrost/crypto"
	"github.com/aperturerobotics/bifrost/hash"
	"github.com/aperturerobotics/bifrost/peer"
	"github.com/aperturerobotics/bifrost/pubsub"
	"github.com/aperturerobotics/bifrost/pubsub/util/pubmessage"
	rt "github.com/aperturerobotics/bifrost/zz_verifrt"
)

func c29Key(b byte) crypto.PrivKey {
	seed := make([]byte, 32)
	seed[0] = b
	std := ed25519.NewKeyFromSeed(seed)
	k, _, err := crypto.KeyPairFromStdKey(&std)
	if err != nil {
		panic(err)
	}
	return k
}

// VerifC29Release: a message is being delivered while a subscription is released / a handler is
// removed, in every interleaving within the preemption bound: no handler invocation starts after
// Release (or the handler's remove function) has returned.
func VerifC29Release() {
	p := 1
	if rt.Tier() > 0 {
		p = 2
	}
	rt.SchedBound(p, true)
	m := c27Node(nil)
	ctx := context.Background()
	priv := c29Key(7)
	s1, err := m.AddSubscription(ctx, priv, "a")
	rt.Assert("subscribe", err == nil)
	released, removed := false, false
	lateSub, lateHandler := 0, 0
	calls1, calls2 := 0, 0
	s1.AddHandler(func(pubsub.Message) {
		rt.Yield() // a scheduling point at handler entry: "starts after Release returned" is observable
		calls1++
		if released {
			lateSub++
		}
	})
	rm2 := s1.AddHandler(func(pubsub.Message) {
		rt.Yield()
		calls2++
		if removed || released {
			lateHandler++
		}
	})
	// an authentic message for channel "a" from another peer arrives
	pub := c29Key(9)
	pkt, inner, err := pubmessage.NewPubMessage("a", pub, hash.HashType_HashType_SHA256, []byte{1})
	rt.Assert("message", err == nil)
	rt.Go("deliver", func() {
		m.handleValidMessage(ctx, peer.ID("\x00\x01P"), pkt, inner)
	})
	switch rt.Choose("action", 3) {
	case 0:
		rt.Go("release", func() {
			s1.Release()
			released = true
		})
	case 1:
		rt.Go("remove", func() {
			rm2()
			removed = true
		})
	case 2:
		rt.Go("both", func() {
			rm2()
			removed = true
			s1.Release()
			released = true
		})
	}
	rt.Quiesce()
	rt.Assert("no handler is invoked after its subscription's Release returned", lateSub == 0)
	rt.Assert("no handler is invoked after its remove function (or Release) returned", lateHandler == 0)
	rt.Assert("a handler sees a message at most once", calls1 <= 1 && calls2 <= 1)
	// a second message after everything settled
	pkt2, inner2, err := pubmessage.NewPubMessage("a", pub, hash.HashType_HashType_SHA256, []byte{2})
	rt.Assert("message 2", err == nil)
	c1, c2 := calls1, calls2
	m.handleValidMessage(ctx, peer.ID("\x00\x01P"), pkt2, inner2)
	rt.Quiesce()
	if released {
		rt.Assert("a released subscription receives nothing further", calls1 == c1 && calls2 == c2)
	} else {
		rt.Assert("a live handler still receives messages", calls1 == c1+1)
		if removed {
			rt.Assert("a removed handler receives nothing further", calls2 == c2)
		}
	}
	rt.Reach("end")
}

func c29Subs(p *streamHandler) (out []*SubscriptionOpts) {
	for {
		select {
		case pk := <-p.packetCh:
			out = append(out, pk.GetSubscriptions()...)
		default:
			return
		}
	}
}

// VerifC29Sweep: peers are told Subscribe=true when the node first subscribes to a channel, and
// Subscribe=false exactly once, after (and only after) the last local subscription to it was released.
func VerifC29Sweep() {
	rt.SchedBound(0, false)
	m := c27Node(nil)
	ctx, cancel := context.WithCancel(context.Background())
	p1 := &streamHandler{m: m, le: m.le, packetCh: make(chan *Packet, 4), ctx: ctx, tpl: pubsub.PeerLinkTuple{PeerID: "\x00\x01P", LinkID: 1}}
	m.peers[p1.tpl] = p1
	rt.Go("execute", func() { _ = m.Execute(ctx) })
	rt.Quiesce()
	priv := c29Key(7)
	nsubs := 1 + rt.Choose("subscriptions", 2)
	var subs []pubsub.Subscription
	for i := 0; i < nsubs; i++ {
		s, err := m.AddSubscription(ctx, priv, "a")
		rt.Assert("subscribe", err == nil)
		subs = append(subs, s)
	}
	rt.Quiesce()
	rt.FireTickers()
	rt.Quiesce()
	got := c29Subs(p1)
	rt.Assert("the first subscription is announced once", len(got) == 1 && got[0].GetChannelId() == "a" && got[0].GetSubscribe())
	// release all but the last
	for i := 0; i+1 < nsubs; i++ {
		subs[i].Release()
		if rt.Choose("releaseTwice", 2) == 1 {
			subs[i].Release()
		}
	}
	rt.Quiesce()
	rt.FireTickers()
	rt.Quiesce()
	m.wake()
	rt.Quiesce()
	rt.FireTickers()
	rt.Quiesce()
	rt.Assert("nothing is withdrawn while a local subscription remains", len(c29Subs(p1)) == 0)
	// the peer may be slow: its send queue is full at the moment of the sweep
	backlogged := rt.Choose("peerBacklogged", 2) == 1
	filler := 0
	if backlogged {
		for len(p1.packetCh) < cap(p1.packetCh) {
			p1.packetCh <- &Packet{}
			filler++
		}
	}
	subs[nsubs-1].Release()
	rt.Quiesce()
	rt.FireTickers()
	rt.Quiesce()
	got = c29Subs(p1)
	if backlogged {
		rt.Reach("backlogged peer")
		// the peer catches up: the withdrawal must still arrive
		rt.Quiesce()
		got = append(got, c29Subs(p1)...)
	}
	rt.Assert("after the last release peers are told once that the channel is no longer wanted", len(got) == 1 && got[0].GetChannelId() == "a" && !got[0].GetSubscribe())
	m.mtx.Lock()
	_, still := m.channels["a"]
	m.mtx.Unlock()
	rt.Assert("the channel is forgotten", !still)
	cancel()
	rt.Quiesce()
	rt.Reach("end")
}
