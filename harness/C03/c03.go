package p2ptls

import (
	"crypto/ecdsa"
	"crypto/ed25519"
	"crypto/elliptic"
	"crypto/rand"
	"crypto/tls"
	"crypto/x509"
	"crypto/x509/pkix"
	"encoding/asn1"
	"math/big"
	"time"

	"github.com/aperturerobotics/bifrost/crypto"
	"github.com/aperturerobotics/bifrost/peer"
	rt "github.com/aperturerobotics/bifrost/zz_verifrt"
)

type c03Ident struct {
	priv crypto.PrivKey
	pub  crypto.PubKey
	id   peer.ID
}

func c03Key(seed []byte) *c03Ident {
	std := ed25519.NewKeyFromSeed(seed)
	k, pub, err := crypto.KeyPairFromStdKey(&std)
	rt.Assert("key from seed", err == nil)
	id, err := peer.IDFromPublicKey(pub)
	rt.Assert("id from key", err == nil)
	return &c03Ident{priv: k, pub: pub, id: id}
}

func c03Seed(b byte) []byte {
	s := make([]byte, 32)
	s[0] = b
	return s
}

var c03OtherOID = asn1.ObjectIdentifier{2, 5, 29, 99}

// c03Scenario describes what the remote presents. The harness builds it twice: as model certificates
// for the engine (X.509 parsing and chain verification are stubs) and as real DER certificates for the
// native replay; the specification below is the same for both.
const (
	c03Valid = iota
	c03NoKeyExt
	c03TwoKeyExtFirstValid
	c03TwoKeyExtFirstJunk
	c03JunkExt
	c03SigOverOtherCertKey
	c03SigByOtherIdentity
	c03NotSelfSigned
	c03TwoCerts
	c03NoCerts
	c03CriticalKeyExt
	c03OtherCriticalExt
	c03Unparsable
	c03NScenarios
)

// c03Accept is the specification: which scenarios authenticate the remote as identity A.
func c03Accept(sc int) bool {
	switch sc {
	case c03Valid, c03TwoKeyExtFirstValid, c03CriticalKeyExt:
		return true
	}
	return false
}

// ---- model chain (engine)

func c03ModelChain(sc int, A, E *c03Ident, junkVal []byte) (chain [][]byte, prior [][]byte) {
	ck := &rt.ModelCertKey{ID: []byte{0xC1}}
	ck2 := &rt.ModelCertKey{ID: []byte{0xC2}}
	good, err := GenerateSignedExtension(A.priv, ck)
	rt.Assert("extension", err == nil)
	cert := &x509.Certificate{PublicKey: ck}
	self := true
	junk := pkix.Extension{Id: extensionID, Value: junkVal}
	other := pkix.Extension{Id: c03OtherOID, Value: []byte{1}}
	switch sc {
	case c03Valid:
		cert.Extensions = []pkix.Extension{other, good}
	case c03NoKeyExt:
		cert.Extensions = []pkix.Extension{other}
	case c03TwoKeyExtFirstValid:
		byE, err := GenerateSignedExtension(E.priv, ck)
		rt.Assert("extension E", err == nil)
		cert.Extensions = []pkix.Extension{good, byE}
	case c03TwoKeyExtFirstJunk:
		rt.Assume(rt.Not(rt.BytesEq(junk.Value, good.Value)))
		cert.Extensions = []pkix.Extension{junk, good}
	case c03JunkExt:
		rt.Assume(rt.Not(rt.BytesEq(junk.Value, good.Value)))
		cert.Extensions = []pkix.Extension{junk}
	case c03SigOverOtherCertKey:
		wrong, err := GenerateSignedExtension(A.priv, ck2)
		rt.Assert("extension over another key", err == nil)
		cert.Extensions = []pkix.Extension{wrong}
		// the honest certificate this binding was copied from (its owner may have connected before)
		rawH := []byte{0x30, 9}
		rt.RegisterCert(rawH, &x509.Certificate{PublicKey: ck2, Extensions: []pkix.Extension{wrong}}, true, false)
		prior = [][]byte{rawH}
	case c03SigByOtherIdentity:
		// names A's public key but carries E's signature
		pa, _ := crypto.MarshalPublicKey(A.pub)
		body, _ := x509.MarshalPKIXPublicKey(ck)
		sig, _ := E.priv.Sign(append([]byte(certificatePrefix), body...))
		v, err := asn1.Marshal(signedKey{PubKey: pa, Signature: sig})
		rt.Assert("marshal", err == nil)
		cert.Extensions = []pkix.Extension{{Id: extensionID, Value: v}}
	case c03NotSelfSigned:
		cert.Extensions = []pkix.Extension{good}
		self = false
	case c03TwoCerts, c03NoCerts, c03Unparsable:
		cert.Extensions = []pkix.Extension{good}
	case c03CriticalKeyExt:
		g := good
		g.Critical = true
		cert.Extensions = []pkix.Extension{g}
		cert.UnhandledCriticalExtensions = []asn1.ObjectIdentifier{extensionID}
	case c03OtherCriticalExt:
		cert.Extensions = []pkix.Extension{good}
		cert.UnhandledCriticalExtensions = []asn1.ObjectIdentifier{c03OtherOID}
	}
	raw := []byte{0x30, 1}
	rt.RegisterCert(raw, cert, self, sc == c03Unparsable)
	switch sc {
	case c03TwoCerts:
		raw2 := []byte{0x30, 2}
		rt.RegisterCert(raw2, &x509.Certificate{PublicKey: ck2, Extensions: []pkix.Extension{good}}, true, false)
		return [][]byte{raw, raw2}, prior
	case c03NoCerts:
		return nil, prior
	}
	return [][]byte{raw}, prior
}

// ---- real chain (native replay)

func c03RealCert(exts []pkix.Extension, certKey, signKey *ecdsa.PrivateKey) []byte {
	tmpl := &x509.Certificate{SerialNumber: big.NewInt(7), NotBefore: time.Now().Add(-time.Hour), NotAfter: time.Now().Add(time.Hour),
		Subject: pkix.Name{SerialNumber: "1"}, ExtraExtensions: exts}
	der, err := x509.CreateCertificate(rand.Reader, tmpl, tmpl, certKey.Public(), signKey)
	if err != nil {
		panic(err)
	}
	return der
}

func c03RealChain(sc int, A, E *c03Ident) (chain [][]byte, prior [][]byte) {
	ck, _ := ecdsa.GenerateKey(elliptic.P256(), rand.Reader)
	ck2, _ := ecdsa.GenerateKey(elliptic.P256(), rand.Reader)
	good, _ := GenerateSignedExtension(A.priv, ck.Public())
	junk := pkix.Extension{Id: extensionID, Value: []byte{0x30, 0x03, 0x02, 0x01, 0x05}}
	other := pkix.Extension{Id: c03OtherOID, Value: []byte{1}}
	switch sc {
	case c03Valid:
		return [][]byte{c03RealCert([]pkix.Extension{other, good}, ck, ck)}, nil
	case c03NoKeyExt:
		return [][]byte{c03RealCert([]pkix.Extension{other}, ck, ck)}, nil
	case c03TwoKeyExtFirstValid, c03TwoKeyExtFirstJunk:
		// x509.CreateCertificate refuses duplicate extension ids: not expressible with real certificates
		return nil, nil
	case c03JunkExt:
		return [][]byte{c03RealCert([]pkix.Extension{junk}, ck, ck)}, nil
	case c03SigOverOtherCertKey:
		wrong, _ := GenerateSignedExtension(A.priv, ck2.Public())
		return [][]byte{c03RealCert([]pkix.Extension{wrong}, ck, ck)}, [][]byte{c03RealCert([]pkix.Extension{wrong}, ck2, ck2)}
	case c03SigByOtherIdentity:
		pa, _ := crypto.MarshalPublicKey(A.pub)
		body, _ := x509.MarshalPKIXPublicKey(ck.Public())
		sig, _ := E.priv.Sign(append([]byte(certificatePrefix), body...))
		v, _ := asn1.Marshal(signedKey{PubKey: pa, Signature: sig})
		return [][]byte{c03RealCert([]pkix.Extension{{Id: extensionID, Value: v}}, ck, ck)}, nil
	case c03NotSelfSigned:
		return [][]byte{c03RealCert([]pkix.Extension{good}, ck, ck2)}, nil
	case c03TwoCerts:
		return [][]byte{c03RealCert([]pkix.Extension{good}, ck, ck), c03RealCert([]pkix.Extension{good}, ck, ck)}, nil
	case c03NoCerts:
		return [][]byte{}, nil
	case c03CriticalKeyExt:
		g := good
		g.Critical = true
		return [][]byte{c03RealCert([]pkix.Extension{g}, ck, ck)}, nil
	case c03OtherCriticalExt:
		o := other
		o.Critical = true
		return [][]byte{c03RealCert([]pkix.Extension{o, good}, ck, ck)}, nil
	case c03Unparsable:
		return [][]byte{{0x30, 0x01, 0x00}}, nil
	}
	return nil, nil
}

// VerifC03Handshake: the certificate check installed by ConfigForPeer accepts a presented chain exactly
// when it is a single self-signed certificate whose (first) key extension binds the certificate key to
// an identity key by a valid signature, and the caller's expected peer (if any) is that identity; the
// key it reports is then that identity's key. Everything else is refused with an error, never a panic.
func VerifC03Handshake() {
	A := c03Key(rt.Bytes("seedA", 32, 32))
	E := c03Key(c03Seed(0x42))
	rawA, _ := A.pub.Raw()
	rawE, _ := E.pub.Raw()
	rt.Assume(rt.Not(rt.BytesEq(rawA, rawE)))
	sc := rt.Choose("chain", c03NScenarios)
	var expected peer.ID
	switch rt.Choose("expected", 5) {
	case 1:
		expected = A.id
	case 2:
		expected = E.id
	case 3: // a well-formed id that does not embed a key (a hashed multihash)
		expected = peer.ID(append([]byte{0x12, 0x20}, make([]byte, 32)...))
	case 4: // an identity multihash around something that is not a key
		expected = peer.ID([]byte{0x00, 0x03, 0x01, 0x02, 0x03})
	}
	// inputs are drawn in the same order in both modes so that a counterexample replays
	junkVal := rt.Bytes("junkext", 12, 12)
	var raw, prior [][]byte
	if rt.Symbolic() {
		raw, prior = c03ModelChain(sc, A, E, junkVal)
	} else {
		raw, prior = c03RealChain(sc, A, E)
		if raw == nil && sc != c03NoCerts {
			return
		}
	}
	ident := &Identity{config: tls.Config{MinVersion: tls.VersionTLS13}}
	if prior != nil && rt.Choose("ownerConnectedBefore", 2) == 1 {
		// the owner of the copied binding completed a handshake earlier in this process
		pconf, pkeyCh := ident.ConfigForPeer("")
		perr := pconf.VerifyPeerCertificate(prior, nil)
		rt.Assert("the honest owner of the binding is accepted", perr == nil)
		<-pkeyCh
	}
	conf, keyCh := ident.ConfigForPeer(expected)
	err := conf.VerifyPeerCertificate(raw, nil)
	var got crypto.PubKey
	select {
	case got = <-keyCh:
	default:
	}
	want := c03Accept(sc) && (expected == "" || expected == A.id)
	if want {
		rt.Reach("accepted")
		rt.Assert("an authentic chain for the expected peer is accepted", err == nil)
		rt.Assert("the key reported for the link is the identity key that signed the binding", got != nil && got.Equals(A.pub))
		if got != nil {
			id, ierr := peer.IDFromPublicKey(got)
			rt.Assert("the link's remote peer is that identity", ierr == nil && id == A.id)
		}
	} else {
		rt.Reach("refused")
		rt.Assert("every other chain, or another peer than the expected one, is refused", err != nil)
		rt.Assert("no key is reported for a refused handshake", got == nil)
	}
	rt.Reach("end")
}

// VerifC03Chain: PubKeyFromCertChain (used for the link's remote identity) on the same chains.
func VerifC03Chain() {
	if !rt.Symbolic() {
		return
	}
	A := c03Key(rt.Bytes("seedA", 32, 32))
	E := c03Key(c03Seed(0x42))
	rawA, _ := A.pub.Raw()
	rawE, _ := E.pub.Raw()
	rt.Assume(rt.Not(rt.BytesEq(rawA, rawE)))
	sc := rt.Choose("chain", c03NScenarios)
	if sc == c03Unparsable {
		return
	}
	raw, _ := c03ModelChain(sc, A, E, rt.Bytes("junkext", 12, 12))
	var chain []*x509.Certificate
	for _, r := range raw {
		c, err := x509.ParseCertificate(r)
		rt.Assert("registered", err == nil)
		chain = append(chain, c)
	}
	pk, err := PubKeyFromCertChain(chain)
	if c03Accept(sc) {
		rt.Assert("the identity of an authentic chain is the signer of the binding", err == nil && pk != nil && pk.Equals(A.pub))
	} else {
		rt.Assert("no identity is derived from any other chain", err != nil && pk == nil)
	}
	rt.Reach("end")
}
