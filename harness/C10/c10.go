package peer

import (
	"github.com/aperturerobotics/bifrost/crypto"
	rt "github.com/aperturerobotics/bifrost/zz_verifrt"
)

// refUvarint is the harness's own reference decoder (LEB128, at most 10 bytes, 64-bit overflow rejected).
func refUvarint(b []byte) (v uint64, n int, ok bool) {
	var shift uint
	for i := 0; i < len(b); i++ {
		c := b[i]
		if i == 10 {
			return 0, 0, false
		}
		if c < 0x80 {
			if i == 9 && c > 1 {
				return 0, 0, false
			}
			return v | uint64(c)<<shift, i + 1, true
		}
		v |= uint64(c&0x7f) << shift
		shift += 7
	}
	return 0, 0, false
}

// VerifC10Parser: IDFromBytes on arbitrary bytes never panics, and accepts exactly the
// well-formed IDENTITY multihashes whose length field equals the remaining length.
func VerifC10Parser() {
	n := 8
	if rt.Tier() > 0 {
		n = 12
	}
	b := rt.Bytes("b", 0, n)
	id, err := IDFromBytes(b)
	code, n1, ok1 := refUvarint(b)
	wellFormed := false
	if ok1 {
		dlen, n2, ok2 := refUvarint(b[n1:])
		if ok2 && uint64(len(b)-n1-n2) == dlen {
			wellFormed = true
		}
	}
	if err == nil {
		rt.Reach("accepted")
		rt.Assert("accepted id equals input", string(id) == string(b))
		rt.Assert("accepted => well-formed multihash framing", wellFormed)
		rt.KnownFinding("C10-non-identity-multihash", code != 0)
		rt.Assert("accepted => identity code", code == 0)
	} else {
		rt.Reach("rejected")
		rt.Assert("rejected => not a well-formed identity multihash", !(wellFormed && code == 0))
	}
	rt.Reach("end")
}

func c10Key(tag string) crypto.PubKey {
	k := rt.Bytes(tag, 32, 32)
	pk, err := crypto.UnmarshalEd25519PublicKey(k)
	rt.Assert("32-byte key accepted", err == nil)
	return pk
}

// VerifC10RoundTrip: Extract(IDFrom(k)) == k, and two keys give equal IDs only if equal.
func VerifC10RoundTrip() {
	pk1 := c10Key("k1")
	pk2 := c10Key("k2")
	id1, err := IDFromPublicKey(pk1)
	rt.Assert("id from key", err == nil)
	id2, err := IDFromPublicKey(pk2)
	rt.Assert("id from key", err == nil)
	ex, err := id1.ExtractPublicKey()
	rt.Assert("extract succeeds", err == nil)
	rt.Assert("extract returns the key", ex.Equals(pk1) && pk1.Equals(ex))
	r1, _ := pk1.Raw()
	r2, _ := pk2.Raw()
	rt.Assert("equal ids iff equal keys", (id1 == id2) == rt.BytesEq(r1, r2))
	rt.Assert("matches own key", id1.MatchesPublicKey(pk1))
	rt.Assert("matches other key iff equal", id1.MatchesPublicKey(pk2) == rt.BytesEq(r1, r2))
	// re-parse of the raw id
	id1b, err := IDFromBytes([]byte(id1))
	rt.Assert("own id re-parses", err == nil && id1b == id1)
	rt.Reach("end")
}

// VerifC10Matches: an arbitrary id matches a key only if it is that key's id.
func VerifC10Matches() {
	pk := c10Key("k")
	var id ID
	switch rt.Choose("idkind", 3) {
	case 0:
		id = ID(rt.Bytes("id", 0, 6))
	case 1:
		id = ID(rt.Bytes("id", 36, 38))
	case 2:
		// a well-formed identity multihash around another encoding of the same key message: fields in
		// the other order, a repeated key_type, or a trailing unknown field. Such an id decodes to the
		// key but is not the id derived from it.
		raw, _ := pk.Raw()
		var msg []byte
		switch rt.Choose("encoding", 3) {
		case 0:
			msg = append(append([]byte{0x12, 0x20}, raw...), 0x08, 0x01)
		case 1:
			msg = append(append([]byte{0x08, 0x01, 0x08, 0x01, 0x12, 0x20}, raw...))
		case 2:
			msg = append(append([]byte{0x08, 0x01, 0x12, 0x20}, raw...), 0x18, rt.U8("unknownField")&0x7f)
		}
		id = ID(encodeMultihash(0, msg))
		rt.Reach("non-canonical embedded key")
	}
	want, err := IDFromPublicKey(pk)
	rt.Assert("id from key", err == nil)
	rt.Assert("matches iff equal to derived id", id.MatchesPublicKey(pk) == (id == want))
	rt.Reach("end")
}

// VerifC10Text: the text form round-trips (base-58 idealised as an inverse pair).
func VerifC10Text() {
	pk := c10Key("k")
	id, err := IDFromPublicKey(pk)
	rt.Assert("id from key", err == nil)
	txt := IDB58Encode(id)
	rt.Assert("String agrees with IDB58Encode", id.String() == txt)
	back, err := IDB58Decode(txt)
	rt.Assert("decode of own text succeeds", err == nil)
	rt.Assert("text round trip", back == id)
	// arbitrary text: accepted implies re-encoding gives the text back and the id is well formed
	s := rt.String("txt", 0, 6)
	id2, err := IDB58Decode(s)
	if err == nil {
		rt.Reach("arbitrary text accepted")
		rt.Assert("accepted text re-encodes to itself", IDB58Encode(id2) == s)
	}
	rt.Reach("end")
}
