package envelope

import (
	"crypto/ed25519"
	"io"

	"github.com/aperturerobotics/bifrost/crypto"
	rt "github.com/aperturerobotics/bifrost/zz_verifrt"
)

// envRand is the randomness source handed to BuildEnvelope: arbitrary bytes.
type envRand struct{}

func (envRand) Read(p []byte) (int, error) {
	copy(p, rt.Bytes("env:rnd", len(p), len(p)))
	return len(p), nil
}

var _ io.Reader = envRand{}

type envKey struct {
	priv crypto.PrivKey
	pub  crypto.PubKey
	seed []byte
}

func envNewKey(tag string) envKey {
	seed := rt.Bytes(tag, 32, 32)
	std := ed25519.NewKeyFromSeed(seed)
	k, pub, err := crypto.KeyPairFromStdKey(&std)
	rt.Assert("key from seed", err == nil)
	return envKey{k, pub, seed}
}

// envSetup is one symbolic envelope configuration within the bound.
type envSetup struct {
	keys      []envKey
	cfg       *EnvelopeConfig
	ctx       string
	payload   []byte
	placed    []int // reference: number of shares actually placed in each grant
	threshold uint32
}

// envBounds: recipients and grants are 1..2 in both tiers. The thorough tier widens the numeric
// ranges instead (threshold, total-share override, context and payload lengths, see below): with
// 1..3 recipients and 1..3 grants the thorough C17 run (about 660k configurations) did not finish
// within 20 minutes on 16 cores, so that bound was never run clean and is not claimed.
func envBounds() (maxKeys, maxGrants int) {
	return 2, 2
}

// envChooseSetup picks recipients, grants, share counts, keypair index lists, threshold and the
// total-share override (every combination within the bound).
func envChooseSetup(distinctKeys bool) *envSetup {
	mk, mg := envBounds()
	s := &envSetup{}
	nk := rt.IntRange("recipients", 1, mk)
	for i := 0; i < nk; i++ {
		s.keys = append(s.keys, envNewKey("seed"))
	}
	if distinctKeys {
		for i := range s.keys {
			for j := i + 1; j < len(s.keys); j++ {
				rt.Assume(rt.Not(rt.BytesEq(s.keys[i].seed, s.keys[j].seed)))
			}
		}
	}
	ng := rt.IntRange("grants", 1, mg)
	s.cfg = &EnvelopeConfig{}
	for g := 0; g < ng; g++ {
		gc := &EnvelopeGrantConfig{ShareCount: uint32(rt.IntRange("shareCount", 0, 2))}
		for k := 0; k < nk; k++ {
			if rt.Choose("inGrant", 2) == 1 {
				gc.KeypairIndexes = append(gc.KeypairIndexes, uint32(k))
			}
		}
		// an index list may name a recipient more than once (accepted input: it is not a set)
		if len(gc.KeypairIndexes) > 0 && (g == 0 || rt.Tier() > 0) && rt.Choose("repeatIndex", 2) == 1 {
			gc.KeypairIndexes = append(gc.KeypairIndexes, gc.KeypairIndexes[0])
		}
		s.cfg.GrantConfigs = append(s.cfg.GrantConfigs, gc)
	}
	if rt.Tier() > 0 {
		s.threshold = uint32(rt.IntRange("threshold", 0, 2))
		s.cfg.TotalShares = uint32(rt.IntRange("totalShares", 0, 3))
		s.ctx = rt.String("ctx", 0, 1)
		s.payload = rt.Bytes("payload", 1, 2)
	} else {
		s.threshold = uint32(rt.IntRange("threshold", 0, 1))
		s.cfg.TotalShares = uint32(2 * rt.IntRange("totalShares", 0, 1))
		s.ctx = rt.String("ctx", 1, 1)
		s.payload = rt.Bytes("payload", 1, 1)
	}
	s.cfg.Threshold = s.threshold
	// reference distribution: shares are dealt grant by grant until they run out
	total := 0
	for _, gc := range s.cfg.GrantConfigs {
		sc := int(gc.ShareCount)
		if sc == 0 {
			sc = 1
		}
		total += sc
	}
	if s.cfg.TotalShares > 0 {
		total = int(s.cfg.TotalShares)
	}
	left := total
	for _, gc := range s.cfg.GrantConfigs {
		sc := int(gc.ShareCount)
		if sc == 0 {
			sc = 1
		}
		if sc > left {
			sc = left
		}
		s.placed = append(s.placed, sc)
		left -= sc
	}
	return s
}

func (s *envSetup) pubs() []crypto.PubKey {
	var out []crypto.PubKey
	for _, k := range s.keys {
		out = append(out, k.pub)
	}
	return out
}

// reachable is the reference: shares placed in grants that list at least one offered key.
func (s *envSetup) reachable(offered []bool) int {
	n := 0
	for gi, gc := range s.cfg.GrantConfigs {
		hit := false
		for _, idx := range gc.KeypairIndexes {
			if offered[idx] {
				hit = true
			}
		}
		if hit {
			n += s.placed[gi]
		}
	}
	return n
}

// VerifC16Unlock: an envelope opens exactly when the offered keys reach at least threshold+1
// distinct shares; the payload and the result fields are exact.
func VerifC16Unlock() {
	s := envChooseSetup(true)
	env, err := BuildEnvelope(envRand{}, s.ctx, s.payload, s.pubs(), s.cfg)
	if err != nil {
		rt.Reach("config rejected")
		return
	}
	offered := make([]bool, len(s.keys))
	var privs []crypto.PrivKey
	for i := range s.keys {
		if rt.Choose("offer", 2) == 1 {
			offered[i] = true
			privs = append(privs, s.keys[i].priv)
		}
	}
	if rt.Choose("stranger", 2) == 1 {
		st := envNewKey("stranger")
		for _, k := range s.keys {
			rt.Assume(rt.Not(rt.BytesEq(st.seed, k.seed)))
		}
		privs = append(privs, st.priv)
	}
	payload, res, err := UnlockEnvelope(s.ctx, env, privs)
	want := s.reachable(offered)
	need := int(s.threshold) + 1
	rt.Assert("no error for a genuine envelope", err == nil && res != nil)
	rt.Assert("shares needed = threshold + 1", int(res.GetSharesNeeded()) == need)
	rt.Assert("shares available = distinct reachable shares", int(res.GetSharesAvailable()) == want)
	if want >= need {
		rt.Reach("opened")
		rt.Assert("opens when enough shares are reachable", res.GetSuccess() && rt.BytesEq(payload, s.payload))
	} else {
		rt.Reach("not opened")
		rt.Assert("stays closed below the threshold", !res.GetSuccess() && payload == nil)
	}
	rt.Reach("end")
}
