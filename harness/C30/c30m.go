package link_solicit_controller

import (
	"github.com/aperturerobotics/bifrost/link"
	link_solicit "github.com/aperturerobotics/bifrost/link/solicit"
	"github.com/aperturerobotics/bifrost/peer"
	"github.com/aperturerobotics/bifrost/protocol"
	"github.com/aperturerobotics/bifrost/stream"
	"github.com/aperturerobotics/controllerbus/directive"
	"github.com/sirupsen/logrus"
	rt "github.com/aperturerobotics/bifrost/zz_verifrt"
)

type c30Link struct {
	link.MountedLink
	remote peer.ID
	tpt    uint64
}

func (l *c30Link) GetRemotePeer() peer.ID   { return l.remote }
func (l *c30Link) GetLocalPeer() peer.ID    { return peer.ID("\x00\x01L") }
func (l *c30Link) GetTransportUUID() uint64 { return l.tpt }
func (l *c30Link) GetLinkUUID() uint64      { return 5 }

type c30Strm struct {
	stream.Stream
	closed int
}

func (s *c30Strm) Close() error { s.closed++; return nil }

type c30MS struct {
	link.MountedStream
	strm *c30Strm
	lnk  link.MountedLink
}

func (m *c30MS) GetStream() stream.Stream   { return m.strm }
func (m *c30MS) GetLink() link.MountedLink  { return m.lnk }
func (m *c30MS) GetPeerID() peer.ID         { return m.lnk.GetRemotePeer() }

type c30RH struct {
	directive.ResolverHandler
	vals []directive.Value
}

func (h *c30RH) AddValue(v directive.Value) (uint32, bool) {
	h.vals = append(h.vals, v)
	return uint32(len(h.vals)), true
}

// VerifC30Match: a stream for hash H on a link is handed to a local solicitation exactly when the
// solicitation's (protocol id, context) hashes to H for that link's session and its peer constraint
// and its transport constraint (each optional) both admit the link; the hashes announced for a link
// are exactly those of the solicitations that admit it.
func VerifC30Match() {
	c, err := NewController(logrus.NewEntry(logrus.New()), &Config{})
	rt.Assert("controller", err == nil)
	remote := peer.ID("\x00\x01R")
	other := peer.ID("\x00\x01O")
	ml := &c30Link{remote: remote, tpt: 7}
	ls := &linkState{le: c.le, ml: ml, sessionID: link_solicit.ComputeSessionID(ml.GetLocalPeer(), remote), matched: map[string]struct{}{}}
	// one or two local solicitations with symbolic protocol, context and constraints
	n := 1 + rt.Choose("solicitations", 2)
	type sol struct {
		ss    *solicitState
		rh    *c30RH
		pid   string
		ctx   []byte
		admit bool
	}
	var sols []*sol
	for i := 0; i < n; i++ {
		s := &sol{rh: &c30RH{}, pid: rt.String("pid", 1, 1), ctx: rt.Bytes("ctx", 0, 1)}
		var pc peer.ID
		var tc uint64
		peerOK, tptOK := true, true
		switch rt.Choose("peerConstraint", 3) {
		case 1:
			pc = remote
		case 2:
			pc, peerOK = other, false
		}
		switch rt.Choose("transportConstraint", 3) {
		case 1:
			tc = 7
		case 2:
			tc = rt.U64("otherTransport")
			rt.Assume(tc != 0 && tc != 7)
			tptOK = false
		}
		s.admit = peerOK && tptOK
		s.ss = &solicitState{dir: link_solicit.NewSolicitProtocol(protocol.ID(s.pid), s.ctx, pc, tc), handler: s.rh}
		c.solicitations[s.ss] = struct{}{}
		sols = append(sols, s)
	}
	// announced entries
	entries := c.getSolicitEntries(ml)
	want := 0
	for _, s := range sols {
		if s.admit {
			want++
			found := false
			for _, e := range entries {
				found = rt.Or(found, rt.And(string(e.ProtocolID) == s.pid, rt.BytesEq(e.Context, s.ctx)))
			}
			rt.Assert("a solicitation that admits the link is announced on it", found)
		}
	}
	rt.Assert("only solicitations that admit the link are announced on it", len(entries) == want)
	// an incoming match for an arbitrary (protocol, context)
	qp, qc := rt.String("matchPid", 1, 1), rt.Bytes("matchCtx", 0, 1)
	h := link_solicit.ComputeProtocolHash(ls.sessionID, protocol.ID(qp), qc)
	ms := &c30MS{strm: &c30Strm{}, lnk: ml}
	c.resolveMatch(ls, h, ms)
	for _, s := range sols {
		same := rt.And(s.pid == qp, rt.BytesEq(s.ctx, qc))
		// the known delimiter-free hashing: "ab"+"c" and "a"+"bc" coincide
		rt.KnownFinding("C30-delimiter-free-hash", rt.And(rt.Not(same), rt.BytesEq(append([]byte(s.pid), s.ctx...), append([]byte(qp), qc...))))
		got := len(s.rh.vals) > 0
		if got {
			rt.Reach("matched")
			rt.Assert("a stream is handed only to a solicitation for the identical protocol and context", same)
			rt.Assert("a stream is handed only to a solicitation whose peer and transport constraints both admit the link", s.admit)
			rt.Assert("handed over once", len(s.rh.vals) == 1)
		} else {
			rt.Assert("a matching solicitation that admits the link is handed the stream", !(rt.And(same, s.admit)))
		}
	}
	rt.Reach("end")
}
