package link_solicit

import (
	"github.com/aperturerobotics/bifrost/protocol"
	rt "github.com/aperturerobotics/bifrost/zz_verifrt"
)

// VerifC30HashIff: for one session, two (protocol id, context) pairs hash equal exactly when both
// components are equal.
func VerifC30HashIff() {
	n := 2
	if rt.Tier() > 0 {
		n = 3
	}
	sess := rt.Bytes("session", 32, 32)
	p1 := rt.String("pid1", 0, n)
	c1 := rt.Bytes("ctx1", 0, n)
	p2 := rt.String("pid2", 0, n)
	c2 := rt.Bytes("ctx2", 0, n)
	h1 := ComputeProtocolHash(sess, protocol.ID(p1), c1)
	h2 := ComputeProtocolHash(sess, protocol.ID(p2), c2)
	rt.Assert("hash has HashSize bytes", len(h1) == HashSize && len(h2) == HashSize)
	same := rt.And(p1 == p2, rt.BytesEq(c1, c2))
	rt.Assert("equal pairs hash equal", rt.Implies(same, rt.BytesEq(h1, h2)))
	rt.KnownFinding("C30-delimiter-free-hash", rt.And(rt.Not(same), rt.BytesEq(append([]byte(p1), c1...), append([]byte(p2), c2...))))
	rt.Assert("hash equal only for identical protocol and context", rt.Implies(rt.BytesEq(h1, h2), same))
	rt.Reach("end")
}

// VerifC30SessionSeparation: the same pair under different sessions hashes differently.
func VerifC30SessionSeparation() {
	s1 := rt.Bytes("session1", 32, 32)
	s2 := rt.Bytes("session2", 32, 32)
	p := rt.String("pid", 0, 2)
	c := rt.Bytes("ctx", 0, 2)
	h1 := ComputeProtocolHash(s1, protocol.ID(p), c)
	h2 := ComputeProtocolHash(s2, protocol.ID(p), c)
	rt.Assert("hash equal iff sessions equal", rt.Iff(rt.BytesEq(h1, h2), rt.BytesEq(s1, s2)))
	rt.Reach("end")
}

// VerifC30Hashes: ComputeProtocolHashes returns the sorted multiset of the entries' hashes.
func VerifC30Hashes() {
	sess := rt.Bytes("session", 32, 32)
	k := rt.IntRange("entries", 0, 3)
	es := make([]SolicitEntry, k)
	for i := range es {
		es[i] = SolicitEntry{ProtocolID: protocol.ID(rt.String("pid", 1, 1)), Context: rt.Bytes("ctx", 0, 1)}
	}
	hs := ComputeProtocolHashes(sess, es)
	rt.Assert("one hash per entry", len(hs) == k)
	for i := 0; i+1 < len(hs); i++ {
		rt.Assert("ascending", !rt.BytesLess(hs[i+1], hs[i]))
	}
	for i := range es {
		want := ComputeProtocolHash(sess, es[i].ProtocolID, es[i].Context)
		found := false
		for j := range hs {
			found = rt.Or(found, rt.BytesEq(hs[j], want))
		}
		rt.Assert("every entry's hash is present", found)
	}
	rt.Reach("end")
}

// VerifC30Long: the whole context reaches the hash: for context lengths on both sides of 32/64/96/128
// bytes (where a fixed staging buffer or block boundary would cut the input), two contexts of the same
// length that differ anywhere give different hashes.
func VerifC30Long() {
	lens := []int{31, 33, 63, 65, 95, 96, 97, 127, 128, 129}
	if rt.Tier() > 0 {
		lens = append(lens, 32, 64, 159, 160, 161, 255, 256, 257)
	}
	sess := rt.Bytes("session", 32, 32)
	p := rt.String("pid", 1, 1)
	c1 := rt.BytesOfLen("ctx1", lens...)
	c2 := rt.Bytes("ctx2", len(c1), len(c1))
	h1 := ComputeProtocolHash(sess, protocol.ID(p), c1)
	h2 := ComputeProtocolHash(sess, protocol.ID(p), c2)
	rt.Assert("long contexts: equal hashes only for equal contexts", rt.Implies(rt.BytesEq(h1, h2), rt.BytesEq(c1, c2)))
	rt.Reach("end")
}
