package signaling_rpc_server

import (
	signaling "github.com/aperturerobotics/bifrost/signaling/rpc"
	rt "github.com/aperturerobotics/bifrost/zz_verifrt"
)

// c22Consistent: at quiescence the last announcement a live call wrote to its client matches the
// relay's state: Opened(current epoch) iff the partner is attached, otherwise Closed or nothing.
func c22Consistent(w *svWorld, s *svSession, me, other *svPeer, label string) {
	if s.done {
		return
	}
	key, meIsA := newSessionKey(me.txt, other.txt)
	sess := w.srv.sessions[key]
	rt.Assert(label+": a live call has a registered session", sess != nil)
	_, remote := sess.getCurrPeers(meIsA)
	opened, isOpen, _ := s.lastAnnounced()
	if remote != nil {
		rt.Assert(label+": partner attached => client was told Opened with the current epoch", isOpen && opened == sess.seqno)
	} else {
		rt.Assert(label+": partner absent => client was not left believing the session is open", !isOpen)
	}
}

// VerifC22Announce: A and B attach, detach and re-attach in every order and interleaving within
// the bound; at quiescence each live client has been told the current state, i.e. every re-open
// was announced before anything of the new epoch could be accepted.
func VerifC22Announce() {
	p := 1
	if rt.Tier() > 0 {
		p = 2
	}
	rt.SchedBound(p, false)
	rt.KnownFinding("C22-second-attacher-not-told", true)
	rt.KnownFinding("C22-reopen-not-announced", true)
	w := svNewWorld()
	A, B := svNewPeer(1), svNewPeer(60)
	var sa, sb *svSession
	k := 3
	if rt.Tier() > 0 {
		k = 4
	}
	n := rt.IntRange("events", 1, k)
	for i := 0; i < n; i++ {
		switch rt.Choose("event", 4) {
		case 0: // A attaches (a second call of the same peer replaces the first)
			sa = w.open("A", A, B)
		case 1:
			sb = w.open("B", B, A)
		case 2:
			if sa != nil {
				sa.cancel()
			}
		case 3:
			if sb != nil {
				sb.cancel()
			}
		}
		if rt.Choose("settle", 2) == 1 {
			rt.Quiesce()
		}
	}
	rt.Quiesce()
	if sa != nil {
		c22Consistent(w, sa, A, B, "A")
	}
	if sb != nil {
		c22Consistent(w, sb, B, A, "B")
	}
	rt.Reach("end")
}

// VerifC22Stale: a message stored under one epoch is never delivered after the epoch changed, and
// a submission carrying an old epoch is dropped silently (not an error) while a newer one is.
func VerifC22Stale() {
	w := svNewWorld()
	A, B := svNewPeer(1), svNewPeer(60)
	sa := w.open("A", A, B)
	sb := w.open("B", B, A)
	rt.Quiesce()
	e1, _, _ := sa.lastAnnounced()
	// B's client goes away and a new call of B attaches: epoch changes
	sb.cancel()
	rt.Quiesce()
	sb2 := w.open("B2", B, A)
	rt.Quiesce()
	// A, not yet aware, submits under the old epoch
	sa.reqCh <- &signaling.SessionRequest{SessionSeqno: e1, Body: &signaling.SessionRequest_SendMsg{SendMsg: svMsg(A, 5, 1)}}
	rt.Quiesce()
	rt.Assert("a submission under a stale epoch is not delivered to the new partner", len(sb2.received()) == 0)
	rt.Assert("a stale submission does not end the submitter's call", !sa.done)
	rt.Reach("end")
}
