package signaling_rpc_server

import (
	signaling "github.com/aperturerobotics/bifrost/signaling/rpc"
	rt "github.com/aperturerobotics/bifrost/zz_verifrt"
)

// c22Consistent: at quiescence the last announcement a live call wrote to its client matches the
// relay's state: Opened(current epoch) iff the partner is attached, otherwise Closed or nothing.
func c22Consistent(w *svWorld, s *svSession, me, other *svPeer, label string) {
	if s.done {
		return
	}
	key, meIsA := newSessionKey(me.txt, other.txt)
	sess := w.srv.sessions[key]
	rt.Assert(label+": a live call has a registered session", sess != nil)
	_, remote := sess.getCurrPeers(meIsA)
	opened, isOpen, _ := s.lastAnnounced()
	if remote != nil {
		rt.Assert(label+": partner attached => client was told Opened with the current epoch", isOpen && opened == sess.seqno)
	} else {
		rt.Assert(label+": partner absent => client was not left believing the session is open", !isOpen)
	}
}

// VerifC22Announce: A and B attach, detach and re-attach in every order and interleaving within
// the bound; at quiescence each live client has been told the current state, i.e. every re-open
// was announced before anything of the new epoch could be accepted.
func VerifC22Announce() {
	// run-to-block schedules: whenever several goroutines can run, every choice of the next one is
	// explored (no preemption inside a run; all shared state is under the server mutex)
	rt.SchedBound(0, true)
	rt.KnownFinding("C22-second-attacher-not-told", true)
	rt.KnownFinding("C22-reopen-not-announced", true)
	w := svNewWorld()
	A, B := svNewPeer(1), svNewPeer(60)
	var sa, sb *svSession
	k := 3
	if rt.Tier() > 0 {
		k = 4
	}
	// optionally start from the settled state "both attached" (then one event fewer is explored)
	if rt.Choose("startBothAttached", 2) == 1 {
		sa = w.open("A", A, B)
		sb = w.open("B", B, A)
		rt.Quiesce()
		k--
		if rt.Tier() == 0 {
			// quick: from the settled state the events are explored under one run-to-block schedule
			// (the order-dependent announcement cases are reached from the empty state above)
			rt.SchedBound(0, false)
		}
	}
	n := rt.IntRange("events", 1, k)
	for i := 0; i < n; i++ {
		switch rt.Choose("event", 4) {
		case 0: // A attaches (a second call of the same peer replaces the first)
			sa = w.open("A", A, B)
		case 1:
			sb = w.open("B", B, A)
		case 2:
			if sa != nil {
				sa.cancel()
			}
		case 3:
			if sb != nil {
				sb.cancel()
			}
		}
		if rt.Choose("settle", 2) == 1 {
			rt.Quiesce()
		}
	}
	rt.Quiesce()
	if sa != nil {
		c22Consistent(w, sa, A, B, "A")
	}
	if sb != nil {
		c22Consistent(w, sb, B, A, "B")
	}
	rt.Reach("end")
}

// VerifC22Stale: after the partner was replaced (epoch change), a submission carrying any epoch value is
// delivered to the new partner only if it names the current epoch; one naming an older epoch is dropped
// without ending the submitter's call, and by then the submitter has been told the epoch it is stale
// against; a message accepted before the change is not delivered after it.
func VerifC22Stale() {
	rt.SchedBound(0, false)
	w := svNewWorld()
	A, B := svNewPeer(1), svNewPeer(60)
	sa := w.open("A", A, B)
	sb := w.open("B", B, A)
	rt.Quiesce()
	e1, open1, _ := sa.lastAnnounced()
	rt.Assert("A was told the first epoch", open1)
	// optionally A has a message accepted under the first epoch that B's write loop has not transmitted
	early := rt.Choose("acceptedBeforeChange", 2) == 1
	if early {
		sa.reqCh <- &signaling.SessionRequest{SessionSeqno: e1, Body: &signaling.SessionRequest_SendMsg{SendMsg: svMsg(A, 4, 1)}}
	}
	// B's client goes away and a new call of B attaches: the epoch changes (twice)
	sb.cancel()
	if rt.Choose("settleBetween", 2) == 1 {
		rt.Quiesce()
	}
	sb2 := w.open("B2", B, A)
	rt.Quiesce()
	e2, open2, _ := sa.lastAnnounced()
	rt.Assert("A was told the new epoch", open2 && e2 > e1)
	if early {
		late := 0
		for _, m := range sb2.received() {
			if m.GetSeqno() == 1 {
				late++
			}
		}
		rt.Assert("a message accepted before the epoch change is not delivered to the new partner call", late == 0)
	}
	n0 := len(sb2.received())
	e := rt.U64("submissionEpoch")
	sa.reqCh <- &signaling.SessionRequest{SessionSeqno: e, Body: &signaling.SessionRequest_SendMsg{SendMsg: svMsg(A, 5, 2)}}
	rt.Quiesce()
	got := len(sb2.received()) - n0
	if e == e2 {
		rt.Reach("current epoch")
		rt.Assert("a submission under the current epoch is delivered", got == 1)
	} else {
		rt.Reach("other epoch")
		rt.Assert("a submission under another epoch is not delivered to the partner", got == 0)
		if e < e2 {
			rt.Assert("a stale submission does not end the submitter's call", !sa.done)
		} else {
			rt.Assert("a future epoch is an error", sa.done && sa.err != nil)
		}
	}
	rt.Reach("end")
}

// VerifC22CrossEpoch: B submits a message and is replaced by a newer call of B before A's relay loop
// has transmitted it (every run-to-block order): whatever A is handed after being told a new epoch was
// submitted under that epoch; B's old-epoch message is never delivered after Opened(new epoch).
func VerifC22CrossEpoch() {
	rt.SchedBound(0, true)
	w := svNewWorld()
	A, B := svNewPeer(1), svNewPeer(60)
	sa := w.open("A", A, B)
	sb := w.open("B", B, A)
	rt.Quiesce()
	e1, open1, _ := sb.lastAnnounced()
	rt.Assert("B was told the first epoch", open1)
	// B submits under e1 and, without the relay settling, a newer call of B attaches
	sb.reqCh <- &signaling.SessionRequest{SessionSeqno: e1, Body: &signaling.SessionRequest_SendMsg{SendMsg: svMsg(B, 4, 1)}}
	sb2 := w.open("B2", B, A)
	rt.Quiesce()
	e2, open2, _ := sb2.lastAnnounced()
	rt.Assert("the newer call was told the new epoch", open2 && e2 > e1)
	// the newer call submits under the new epoch
	sb2.reqCh <- &signaling.SessionRequest{SessionSeqno: e2, Body: &signaling.SessionRequest_SendMsg{SendMsg: svMsg(B, 5, 2)}}
	rt.Quiesce()
	// walk A's stream in order
	cur := uint64(0)
	got2 := false
	for _, m := range sa.sent {
		switch b := m.GetBody().(type) {
		case *signaling.SessionResponse_Opened:
			cur = b.Opened
		case *signaling.SessionResponse_RecvMsg:
			if b.RecvMsg.GetSeqno() == 1 {
				rt.Reach("old message delivered")
				rt.Assert("a message submitted under the old epoch is not delivered after the new epoch was announced", cur == e1)
			}
			if b.RecvMsg.GetSeqno() == 2 {
				got2 = true
				rt.Assert("the new-epoch message is delivered after its epoch was announced", cur == e2)
			}
		}
	}
	rt.Assert("the message submitted under the new epoch is delivered", got2)
	rt.Reach("end")
}
