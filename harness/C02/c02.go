package peer

import (
	"crypto/ed25519"

	"github.com/aperturerobotics/bifrost/crypto"
	"github.com/aperturerobotics/bifrost/hash"
	rt "github.com/aperturerobotics/bifrost/zz_verifrt"
)

func c02Key(tag string) (crypto.PrivKey, crypto.PubKey, []byte) {
	seed := rt.Bytes(tag, 32, 32)
	std := ed25519.NewKeyFromSeed(seed)
	k, pub, err := crypto.KeyPairFromStdKey(&std)
	rt.Assert("key from seed", err == nil)
	return k, pub, seed
}

// VerifC02Iff: a detached signature made with (sk, ctx, ht, data) verifies under (pk', ctx', ht', data')
// exactly when pk' = pub(sk), ctx = ctx', ht = ht', data = data'.
func VerifC02Iff() {
	cm, dm := 2, 2
	if rt.Tier() > 0 {
		cm, dm = 4, 4
	}
	sk, _, seed := c02Key("seed")
	_, pub2, seed2 := c02Key("seed2")
	ctx := rt.String("ctx", 0, cm)
	ctx2 := rt.String("ctx2", 0, cm)
	data := rt.Bytes("data", 0, dm)
	data2 := rt.Bytes("data2", 0, dm)
	ht := hash.HashType(rt.IntRange("ht", 1, 3))
	ht2 := hash.HashType(rt.IntRange("ht2", 1, 3))
	sig, err := NewSignature(ctx, sk, ht, data, rt.Bool("inclpub"))
	rt.Assert("signing with a supported hash type succeeds", err == nil && sig != nil)
	rt.Assert("fresh signature object is valid", sig.Validate() == nil)
	// the verifier may be given another hash type in the object
	sig.HashType = ht2
	ok, verr := sig.VerifyWithPublic(ctx2, pub2, data2)
	same := rt.And(rt.And(rt.BytesEq(seed, seed2), ctx == ctx2), rt.And(ht == ht2, rt.BytesEq(data, data2)))
	rt.Assert("verifies iff key, context, hash type and data all match", rt.Iff(ok && verr == nil, same))
	rt.Assert("no error for well-formed inputs", verr == nil)
	rt.Reach("end")
}

// VerifC02Malformed: signature objects with unknown hash type, empty signature bytes or an
// unparsable embedded key are rejected by Validate and never verify.
func VerifC02Malformed() {
	_, pub, _ := c02Key("seed")
	s := &Signature{HashType: hash.HashType(rt.U32("ht")), SigData: rt.BytesOfLen("sig", 0, 64)}
	switch rt.Choose("pub", 3) {
	case 1:
		g := 3
		if rt.Tier() > 0 {
			g = 5
		}
		s.PubKey = rt.Bytes("pubgarbage", 1, g)
	case 2:
		b, err := crypto.MarshalPublicKey(pub)
		rt.Assert("marshal pub", err == nil)
		s.PubKey = b
	}
	known := s.HashType == hash.HashType_HashType_SHA256 || s.HashType == hash.HashType_HashType_SHA1 || s.HashType == hash.HashType_HashType_BLAKE3
	verr := s.Validate()
	if !known {
		rt.Reach("unknown hash type")
		rt.KnownFinding("C02-unknown-hash-type-validates", s.HashType == hash.HashType_HashType_UNKNOWN)
		rt.Assert("unknown hash type rejected by Validate", verr != nil)
	}
	if len(s.SigData) == 0 {
		rt.Assert("empty signature rejected by Validate", verr != nil)
	}
	if len(s.PubKey) != 0 {
		_, perr := crypto.UnmarshalPublicKey(s.PubKey)
		if perr != nil {
			rt.Reach("unparsable key")
			rt.Assert("unparsable embedded key rejected by Validate", verr != nil)
		}
	}
	ok, err := s.VerifyWithPublic(rt.String("ctx", 0, 1), pub, rt.Bytes("data", 0, 1))
	if !known || len(s.SigData) == 0 {
		rt.Assert("malformed signature never verifies", !ok && err != nil)
	}
	rt.Assert("arbitrary signature bytes never verify (no forgery)", !ok)
	rt.Reach("end")
}
