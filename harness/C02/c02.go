package peer

import (
	"crypto/ed25519"

	"github.com/aperturerobotics/bifrost/crypto"
	"github.com/aperturerobotics/bifrost/hash"
	rt "github.com/aperturerobotics/bifrost/zz_verifrt"
)

func c02Key(tag string) (crypto.PrivKey, crypto.PubKey, []byte) {
	seed := rt.Bytes(tag, 32, 32)
	std := ed25519.NewKeyFromSeed(seed)
	k, pub, err := crypto.KeyPairFromStdKey(&std)
	rt.Assert("key from seed", err == nil)
	return k, pub, seed
}

// VerifC02Iff: a detached signature made with (sk, ctx, ht, data) verifies under (pk', ctx', ht', data')
// exactly when pk' = pub(sk), ctx = ctx', ht = ht', data = data'.
func VerifC02Iff() {
	cm, dm := 2, 2
	if rt.Tier() > 0 {
		cm, dm = 4, 4
	}
	sk, _, seed := c02Key("seed")
	_, pub2, seed2 := c02Key("seed2")
	ctx := rt.String("ctx", 0, cm)
	ctx2 := rt.String("ctx2", 0, cm)
	data := rt.Bytes("data", 0, dm)
	data2 := rt.Bytes("data2", 0, dm)
	ht := hash.HashType(rt.IntRange("ht", 1, 3))
	ht2 := hash.HashType(rt.IntRange("ht2", 1, 3))
	sig, err := NewSignature(ctx, sk, ht, data, rt.Bool("inclpub"))
	rt.Assert("signing with a supported hash type succeeds", err == nil && sig != nil)
	rt.Assert("fresh signature object is valid", sig.Validate() == nil)
	// the verifier may be given another hash type in the object
	sig.HashType = ht2
	ok, verr := sig.VerifyWithPublic(ctx2, pub2, data2)
	same := rt.And(rt.And(rt.BytesEq(seed, seed2), ctx == ctx2), rt.And(ht == ht2, rt.BytesEq(data, data2)))
	rt.Assert("verifies iff key, context, hash type and data all match", rt.Iff(ok && verr == nil, same))
	rt.Assert("no error for well-formed inputs", verr == nil)
	rt.Reach("end")
}

// VerifC02Malformed: signature objects with unknown hash type, empty signature bytes or an
// unparsable embedded key are rejected by Validate and never verify.
func VerifC02Malformed() {
	_, pub, _ := c02Key("seed")
	s := &Signature{HashType: hash.HashType(rt.U32("ht")), SigData: rt.BytesOfLen("sig", 0, 64)}
	wrongLen, wrongType := false, false
	switch rt.Choose("pub", 5) {
	case 1:
		g := 3
		if rt.Tier() > 0 {
			g = 5
		}
		s.PubKey = rt.Bytes("pubgarbage", 1, g)
	case 2:
		b, err := crypto.MarshalPublicKey(pub)
		rt.Assert("marshal pub", err == nil)
		s.PubKey = b
	case 3: // a well-framed PublicKey message whose key material has the wrong length
		raw, _ := pub.Raw()
		n := []int{0, 31, 33, 64}[rt.Choose("keylen", 4)]
		kd := make([]byte, n)
		copy(kd, raw)
		for i := 32; i < n; i++ {
			kd[i] = rt.U8("extra")
		}
		b, err := (&crypto.PublicKey{KeyType: crypto.KeyType_Ed25519, Data: kd}).MarshalVT()
		rt.Assert("marshal framed key", err == nil)
		s.PubKey = b
		wrongLen = true
	case 4: // a well-framed PublicKey message of an unsupported key type
		raw, _ := pub.Raw()
		b, err := (&crypto.PublicKey{KeyType: crypto.KeyType(rt.IntRange("keytype", 0, 3)), Data: raw}).MarshalVT()
		rt.Assert("marshal framed key", err == nil)
		s.PubKey = b
		wrongType = true
	}
	known := s.HashType == hash.HashType_HashType_SHA256 || s.HashType == hash.HashType_HashType_SHA1 || s.HashType == hash.HashType_HashType_BLAKE3
	verr := s.Validate()
	if !known {
		rt.Reach("unknown hash type")
		rt.KnownFinding("C02-unknown-hash-type-validates", s.HashType == hash.HashType_HashType_UNKNOWN)
		rt.Assert("unknown hash type rejected by Validate", verr != nil)
	}
	if len(s.SigData) == 0 {
		rt.Assert("empty signature rejected by Validate", verr != nil)
	}
	if len(s.PubKey) != 0 {
		_, perr := crypto.UnmarshalPublicKey(s.PubKey)
		if perr != nil {
			rt.Reach("unparsable key")
			rt.Assert("unparsable embedded key rejected by Validate", verr != nil)
		}
	}
	if wrongLen {
		rt.Reach("embedded key of wrong length")
		rt.Assert("an embedded Ed25519 key that is not 32 bytes long is rejected by Validate", verr != nil)
		pk, perr := s.ParsePubKey()
		rt.Assert("and does not parse", perr != nil && pk == nil)
	}
	if wrongType {
		if pk, perr := s.ParsePubKey(); perr == nil {
			rt.Assert("an embedded key that parses is an Ed25519 key", pk != nil && pk.Type() == crypto.KeyType_Ed25519)
		} else {
			rt.Reach("embedded key of unsupported type")
			rt.Assert("an embedded key of an unsupported type is rejected by Validate", verr != nil)
		}
	}
	ok, err := s.VerifyWithPublic(rt.String("ctx", 0, 1), pub, rt.Bytes("data", 0, 1))
	if !known || len(s.SigData) == 0 {
		rt.Assert("malformed signature never verifies", !ok && err != nil)
	}
	rt.Assert("arbitrary signature bytes never verify (no forgery)", !ok)
	rt.Reach("end")
}

// VerifC02SigLength: only the exact 64 signature bytes verify: a genuine signature that was truncated
// or extended by arbitrary bytes is not a signature.
func VerifC02SigLength() {
	sk, pub, _ := c02Key("seed")
	ctx := rt.String("ctx", 0, 1)
	data := rt.Bytes("data", 0, 1)
	ht := hash.HashType(rt.IntRange("ht", 1, 3))
	sig, err := NewSignature(ctx, sk, ht, data, false)
	rt.Assert("sign", err == nil && len(sig.SigData) == 64)
	ok, verr := sig.VerifyWithPublic(ctx, pub, data)
	rt.Assert("the genuine signature verifies", ok && verr == nil)
	good := sig.SigData
	switch rt.Choose("shape", 4) {
	case 0:
		sig.SigData = good[:63]
	case 1:
		sig.SigData = append(append([]byte{}, good...), rt.U8("extra"))
	case 2:
		sig.SigData = append(append([]byte{}, good...), rt.Bytes("extra32", 32, 32)...)
	case 3:
		sig.SigData = append([]byte{rt.U8("lead")}, good...)
	}
	ok, _ = sig.VerifyWithPublic(ctx, pub, data)
	rt.Assert("a truncated or extended signature does not verify", !ok)
	m := &SignedMsg{FromPeerId: "", Signature: sig, Data: data}
	id, _ := IDFromPublicKey(pub)
	m.FromPeerId = IDB58Encode(id)
	if len(data) > 0 {
		_, _, err = m.ExtractAndVerify(ctx)
		rt.Assert("nor does a signed message carrying it", err != nil)
	}
	rt.Reach("end")
}

// VerifC02DigestIsNotData: a signature over data D does not verify for the message whose bytes are the
// digest of D (nor does a signature made over an already-hashed value verify for that value's pre-image
// being absent): what is signed is hash(data), exactly once.
func VerifC02DigestIsNotData() {
	sk, pub, _ := c02Key("seed")
	ctx := rt.String("ctx", 0, 1)
	data := rt.Bytes("data", 0, 2)
	ht := hash.HashType(rt.IntRange("ht", 1, 3))
	sig, err := NewSignature(ctx, sk, ht, data, false)
	rt.Assert("sign", err == nil)
	var digest []byte
	switch ht {
	case hash.HashType_HashType_SHA256:
		digest = rt.RefSHA256(data)
	case hash.HashType_HashType_SHA1:
		digest = rt.RefSHA1(data)
	case hash.HashType_HashType_BLAKE3:
		digest = rt.RefBLAKE3(data)
	}
	ok, _ := sig.VerifyWithPublic(ctx, pub, digest)
	rt.Assert("a signature over D does not verify for the message H(D)", !ok)
	id, _ := IDFromPublicKey(pub)
	m := &SignedMsg{FromPeerId: IDB58Encode(id), Signature: sig, Data: digest}
	_, _, err = m.ExtractAndVerify(ctx)
	rt.Assert("nor does a signed message whose body was replaced by its digest", err != nil)
	rt.Reach("end")
}
