package bifrost_rpc_access

import (
	"context"

	bifrost_rpc "github.com/aperturerobotics/bifrost/rpc"
	"github.com/aperturerobotics/controllerbus/bus"
	"github.com/aperturerobotics/controllerbus/directive"
	"github.com/aperturerobotics/starpc/srpc"
	rt "github.com/aperturerobotics/bifrost/zz_verifrt"
)

type c36Ref struct{ released bool }

func (r *c36Ref) Release() { r.released = true }

type c36Inst struct {
	directive.Instance
	idleCb directive.IdleCallback
}

func (i *c36Inst) AddIdleCallback(cb directive.IdleCallback) func() {
	i.idleCb = cb
	return func() { i.idleCb = nil }
}

type c36Bus struct {
	bus.Bus
	handler directive.ReferenceHandler
	dir     directive.Directive
	inst    *c36Inst
	ref     *c36Ref
}

func (b *c36Bus) AddDirective(dir directive.Directive, h directive.ReferenceHandler) (directive.Instance, directive.Reference, error) {
	b.dir, b.handler = dir, h
	b.inst, b.ref = &c36Inst{}, &c36Ref{}
	return b.inst, b.ref, nil
}

type c36Stream struct {
	srpc.Stream
	ctx  context.Context
	sent []*LookupRpcServiceResponse
	// slowAt > 0: the slowAt-th Send blocks (a slow transport) until the harness opens the gate
	slowAt int
	nsend  int
	gate   chan struct{}
}

func (s *c36Stream) Context() context.Context { return s.ctx }
func (s *c36Stream) Send(m *LookupRpcServiceResponse) error {
	s.nsend++
	if s.nsend == s.slowAt {
		<-s.gate
	}
	s.sent = append(s.sent, m)
	return nil
}
func (s *c36Stream) SendAndClose(m *LookupRpcServiceResponse) error { return s.Send(m) }

type c36Invoker struct{ srpc.Invoker }

// VerifC36Lookup: for every sequence of value-added / value-removed / idle callbacks the stream
// carries Exists and Removed strictly alternating (starting with Exists) and ends in the state
// "exists iff at least one value is present"; idle changes are reported once per change.
func VerifC36Lookup() {
	k := 4
	if rt.Tier() > 0 {
		k = 5
	}
	rt.SchedBound(0, false)
	b := &c36Bus{}
	ctx, cancel := context.WithCancel(context.Background())
	strm := &c36Stream{ctx: ctx, gate: make(chan struct{}), slowAt: rt.Choose("slowSendAt", 3)}
	srv := NewAccessRpcServiceServer(b, false, nil)
	var retErr error
	done := false
	rt.Go("server", func() {
		retErr = srv.LookupRpcService(&LookupRpcServiceRequest{ServiceId: "svc", ServerId: "srv"}, strm)
		done = true
	})
	rt.Quiesce()
	rt.Assert("directive added for the requested service and server", b.dir != nil && b.handler != nil)
	d := b.dir.(bifrost_rpc.LookupRpcService)
	rt.Assert("lookup parameters passed through", d.LookupRpcServiceID() == "svc" && d.LookupRpcServerID() == "srv")
	present := map[uint32]bool{}
	nextID := uint32(1)
	idle := false
	idleChanges := 0
	n := rt.IntRange("events", 0, k)
	for i := 0; i < n; i++ {
		switch rt.Choose("event", 3) {
		case 0: // a fresh value appears (the bus assigns a new id each time)
			b.handler.HandleValueAdded(b.inst, directive.NewAttachedValue(nextID, bifrost_rpc.LookupRpcServiceValue(c36Invoker{})))
			present[nextID] = true
			nextID++
		case 1: // some value id is removed: present, already removed, or never seen
			id := uint32(1 + rt.Choose("removeID", 3))
			b.handler.HandleValueRemoved(b.inst, directive.NewAttachedValue(id, bifrost_rpc.LookupRpcServiceValue(c36Invoker{})))
			delete(present, id)
		case 2:
			v := rt.Choose("idle", 2) == 1
			// the idle notification may carry the error of a resolver that was cancelled
			var errs []error
			if v && rt.Choose("idleWithCanceledResolver", 2) == 1 {
				errs = []error{context.Canceled}
			}
			if b.inst.idleCb != nil {
				b.inst.idleCb(v, errs)
			}
			if v != idle {
				idle = v
				idleChanges++
			}
		}
		if rt.Choose("letServerRun", 2) == 1 {
			rt.Quiesce()
		}
	}
	rt.Quiesce()
	close(strm.gate)
	rt.Quiesce()
	rt.Assert("the lookup is still running", !done)
	exists := false
	first := true
	gotIdle := 0
	for _, m := range strm.sent {
		if m.GetExists() {
			rt.Assert("Exists is only sent when the service was absent", !exists)
			exists = true
			first = false
		} else if m.GetRemoved() {
			rt.Assert("Removed is only sent after Exists", exists && !first)
			exists = false
		} else {
			gotIdle++
		}
	}
	rt.Assert("final reported availability = at least one value present", exists == (len(present) > 0))
	rt.Assert("idle state changes are each reported once", gotIdle == idleChanges)
	cancel()
	rt.Quiesce()
	rt.Assert("cancellation ends the lookup", done && retErr == context.Canceled)
	rt.Assert("the directive reference is released on exit", b.ref.released)
	rt.Reach("end")
}

// VerifC36ComponentID: the component id of a request round-trips.
func VerifC36ComponentID() {
	req := &LookupRpcServiceRequest{ServiceId: rt.String("service", 0, 2), ServerId: rt.String("server", 0, 2)}
	id, err := req.MarshalComponentID()
	rt.Assert("marshal component id", err == nil)
	if len(req.ServiceId)+len(req.ServerId) == 0 {
		return // the empty request marshals to the empty string (see C15's empty-hash note)
	}
	back := &LookupRpcServiceRequest{}
	err = back.UnmarshalComponentID(id)
	rt.Assert("component id round trip", err == nil && back.GetServiceId() == req.GetServiceId() && back.GetServerId() == req.GetServerId())
	rt.Reach("end")
}

// VerifC36ComponentIDPair: two requests encoded in the same process (the second may be encoded after
// the first, as a proxy does for every call) both round-trip: encoding keeps no state that confuses
// requests whose ids share characters such as '/'.
func VerifC36ComponentIDPair() {
	ids := []string{"a", "b/c", "a/b", "c"}
	alphabet := func(tag string) string { return ids[rt.Choose(tag, len(ids))] }
	r1 := &LookupRpcServiceRequest{ServiceId: alphabet("service1"), ServerId: alphabet("server1")}
	r2 := &LookupRpcServiceRequest{ServiceId: alphabet("service2"), ServerId: alphabet("server2")}
	id1, err := r1.MarshalComponentID()
	rt.Assert("marshal first", err == nil)
	id2, err := r2.MarshalComponentID()
	rt.Assert("marshal second", err == nil)
	b1, b2 := &LookupRpcServiceRequest{}, &LookupRpcServiceRequest{}
	rt.Assert("first decodes", b1.UnmarshalComponentID(id1) == nil)
	rt.Assert("second decodes", b2.UnmarshalComponentID(id2) == nil)
	rt.Assert("the first request round-trips", b1.GetServiceId() == r1.GetServiceId() && b1.GetServerId() == r1.GetServerId())
	rt.Assert("the second request round-trips although another one was encoded before it", b2.GetServiceId() == r2.GetServiceId() && b2.GetServerId() == r2.GetServerId())
	rt.Reach("end")
}
