package envelope

import (
	"github.com/aperturerobotics/bifrost/crypto"
	rt "github.com/aperturerobotics/bifrost/zz_verifrt"
)

// c18Sealed builds one small genuine envelope (1-2 recipients, 1-2 grants, openable).
func c18Sealed() (*envSetup, *Envelope, []crypto.PrivKey) {
	s := &envSetup{}
	nk := rt.IntRange("recipients", 1, 2)
	for i := 0; i < nk; i++ {
		s.keys = append(s.keys, envNewKey("seed"))
	}
	for i := range s.keys {
		for j := i + 1; j < len(s.keys); j++ {
			rt.Assume(rt.Not(rt.BytesEq(s.keys[i].seed, s.keys[j].seed)))
		}
	}
	s.cfg = &EnvelopeConfig{Threshold: uint32(rt.IntRange("threshold", 0, 1))}
	for g := 0; g < nk; g++ {
		s.cfg.GrantConfigs = append(s.cfg.GrantConfigs, &EnvelopeGrantConfig{ShareCount: 1, KeypairIndexes: []uint32{uint32(g)}})
	}
	rt.Assume(int(s.cfg.Threshold)+1 <= nk)
	s.threshold = s.cfg.Threshold
	s.ctx = rt.String("ctx", 0, 1)
	s.payload = rt.Bytes("payload", 1, 2)
	env, err := BuildEnvelope(envRand{}, s.ctx, s.payload, s.pubs(), s.cfg)
	rt.Assert("genuine envelope builds", err == nil && env != nil)
	var privs []crypto.PrivKey
	for _, k := range s.keys {
		privs = append(privs, k.priv)
	}
	return s, env, privs
}

// VerifC18Context: an envelope opened under another context is refused with ErrContextMismatch.
func VerifC18Context() {
	s, env, privs := c18Sealed()
	ctx2 := rt.String("ctx2", 0, 1)
	// the caller may hold all recipient keys, only an unrelated key, or no key at all
	switch rt.Choose("offered", 3) {
	case 1:
		st := envNewKey("stranger")
		for _, k := range s.keys {
			rt.Assume(rt.Not(rt.BytesEq(st.seed, k.seed)))
		}
		privs = []crypto.PrivKey{st.priv}
		if ctx2 == s.ctx {
			return
		}
	case 2:
		privs = nil
		if ctx2 == s.ctx {
			return
		}
	}
	payload, _, err := UnlockEnvelope(ctx2, env, privs)
	if ctx2 == s.ctx {
		rt.Reach("same context")
		rt.Assert("same context opens", err == nil && rt.BytesEq(payload, s.payload))
	} else {
		rt.Reach("other context")
		rt.Assert("other context is refused with ErrContextMismatch", err == ErrContextMismatch && payload == nil)
	}
	rt.Reach("end")
}

// VerifC18Tamper: a sealed envelope with any of its fields replaced by arbitrary values yields an
// error, a nil payload, or exactly the original payload; never another payload, never a panic.
func VerifC18Tamper() {
	s, env, privs := c18Sealed()
	truncated := false
	switch rt.Choose("field", 9) {
	case 0:
		env.Threshold = rt.U32("threshold")
		rt.Assume(env.Threshold <= 3)
	case 1:
		env.EnvelopeId = rt.String("envid", 0, 2)
	case 2:
		env.ContextHash = rt.BytesOfLen("ctxhash", 0, 31, 32)
	case 3:
		if len(env.Grants) > 1 {
			env.Grants[0], env.Grants[1] = env.Grants[1], env.Grants[0]
		}
	case 4:
		env.Grants[0].KeypairIndexes = []uint32{rt.U32("kpidx")}
	case 5:
		ct := env.Grants[0].Ciphertexts[0]
		i := rt.Int("pos")
		rt.Assume(i >= 0 && i < len(ct))
		nb := rt.U8("newbyte")
		ct2 := make([]byte, len(ct))
		for k := range ct {
			ct2[k] = rt.Ite8(i == k, nb, ct[k])
		}
		env.Grants[0].Ciphertexts[0] = ct2
	case 6:
		ct := env.Ciphertext
		i := rt.Int("pos")
		rt.Assume(i >= 0 && i < len(ct))
		nb := rt.U8("newbyte")
		ct2 := make([]byte, len(ct))
		for k := range ct {
			ct2[k] = rt.Ite8(i == k, nb, ct[k])
		}
		env.Ciphertext = ct2
	case 7: // the payload ciphertext cut to any shorter length
		n := rt.IntRange("payloadCut", 0, len(env.Ciphertext)-1)
		env.Ciphertext = env.Ciphertext[:n]
		truncated = true
	case 8: // a grant ciphertext cut to any shorter length
		ct := env.Grants[0].Ciphertexts[0]
		n := rt.IntRange("grantCut", 0, len(ct)-1)
		env.Grants[0].Ciphertexts[0] = ct[:n]
	}
	payload, res, err := UnlockEnvelope(s.ctx, env, privs)
	if truncated {
		rt.Assert("a truncated payload ciphertext never opens", payload == nil)
	}
	ok := err != nil || payload == nil || rt.BytesEq(payload, s.payload)
	rt.Assert("tampered envelope: error, nil payload, or exactly the original payload", ok)
	if payload != nil {
		rt.Reach("still opens")
		rt.Assert("success flag agrees with payload", res != nil && res.GetSuccess())
	}
	rt.Reach("end")
}
