package envelope

import (
	"crypto/ed25519"

	"github.com/aperturerobotics/bifrost/crypto"
	rt "github.com/aperturerobotics/bifrost/zz_verifrt"
)

// VerifC18Wire: an envelope decoded from arbitrary bytes never makes UnlockEnvelope panic
// (real decryption code, no contract: this inherits C12's totality).
func VerifC18Wire() {
	n := 5
	if rt.Tier() > 0 {
		n = 7
	}
	env := &Envelope{}
	if env.UnmarshalVT(rt.Bytes("wire", 0, n)) != nil {
		rt.Reach("undecodable")
		return
	}
	seed := rt.Bytes("seed", 32, 32)
	std := ed25519.NewKeyFromSeed(seed)
	k, _, err := crypto.KeyPairFromStdKey(&std)
	rt.Assert("key", err == nil)
	payload, _, err := UnlockEnvelope(rt.String("ctx", 0, 1), env, []crypto.PrivKey{k})
	rt.Assert("arbitrary bytes never open to a payload", payload == nil)
	_ = err
	rt.Reach("end")
}

// VerifC18GrantCiphertext: a structurally valid envelope whose grant ciphertext is arbitrary
// (every length 0..56) is refused without a panic.
func VerifC18GrantCiphertext() {
	seed := rt.Bytes("seed", 32, 32)
	std := ed25519.NewKeyFromSeed(seed)
	k, pub, err := crypto.KeyPairFromStdKey(&std)
	rt.Assert("key", err == nil)
	ctx := rt.String("ctx", 0, 1)
	env, err := BuildEnvelope(envRand{}, ctx, []byte{1}, []crypto.PubKey{pub}, &EnvelopeConfig{GrantConfigs: []*EnvelopeGrantConfig{{KeypairIndexes: []uint32{0}}}})
	rt.Assert("build", err == nil)
	ct := rt.Bytes("grantct", 0, 56)
	env.Grants[0].Ciphertexts[0] = ct
	rt.KnownFinding("C12-short-ciphertext-panic", len(ct) == 34 || len(ct) == 35)
	payload, _, _ := UnlockEnvelope(ctx, env, []crypto.PrivKey{k})
	rt.Assert("arbitrary grant ciphertext does not open the envelope", payload == nil)
	rt.Reach("end")
}
