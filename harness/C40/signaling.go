package signaling_rpc

import rt "github.com/aperturerobotics/bifrost/zz_verifrt"

func c40N() int {
	if rt.Tier() > 0 {
		return 7
	}
	return 5
}

// VerifC40SessionRequest: decoding arbitrary bytes as SessionRequest returns a value or an error, never panics, and never
// allocates beyond the input-driven limit.
func VerifC40SessionRequest() {
	rt.AllocLimit(1 << 16)
	m := &SessionRequest{}
	err := m.UnmarshalVT(rt.Bytes("wire", 0, c40N()))
	if err == nil {
		rt.Reach("decoded")
		_ = m.SizeVT()
	} else {
		rt.Reach("rejected")
	}
	rt.Reach("end")
}

// VerifC40SessionResponse: decoding arbitrary bytes as SessionResponse returns a value or an error, never panics, and never
// allocates beyond the input-driven limit.
func VerifC40SessionResponse() {
	rt.AllocLimit(1 << 16)
	m := &SessionResponse{}
	err := m.UnmarshalVT(rt.Bytes("wire", 0, c40N()))
	if err == nil {
		rt.Reach("decoded")
		_ = m.SizeVT()
	} else {
		rt.Reach("rejected")
	}
	rt.Reach("end")
}

// VerifC40ListenRequest: decoding arbitrary bytes as ListenRequest returns a value or an error, never panics, and never
// allocates beyond the input-driven limit.
func VerifC40ListenRequest() {
	rt.AllocLimit(1 << 16)
	m := &ListenRequest{}
	err := m.UnmarshalVT(rt.Bytes("wire", 0, c40N()))
	if err == nil {
		rt.Reach("decoded")
		_ = m.SizeVT()
	} else {
		rt.Reach("rejected")
	}
	rt.Reach("end")
}

// VerifC40ListenResponse: decoding arbitrary bytes as ListenResponse returns a value or an error, never panics, and never
// allocates beyond the input-driven limit.
func VerifC40ListenResponse() {
	rt.AllocLimit(1 << 16)
	m := &ListenResponse{}
	err := m.UnmarshalVT(rt.Bytes("wire", 0, c40N()))
	if err == nil {
		rt.Reach("decoded")
		_ = m.SizeVT()
	} else {
		rt.Reach("rejected")
	}
	rt.Reach("end")
}

// VerifC40SessionMsg: decoding arbitrary bytes as SessionMsg returns a value or an error, never panics, and never
// allocates beyond the input-driven limit.
func VerifC40SessionMsg() {
	rt.AllocLimit(1 << 16)
	m := &SessionMsg{}
	err := m.UnmarshalVT(rt.Bytes("wire", 0, c40N()))
	if err == nil {
		rt.Reach("decoded")
		_ = m.SizeVT()
	} else {
		rt.Reach("rejected")
	}
	rt.Reach("end")
}
