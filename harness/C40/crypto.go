package crypto

import rt "github.com/aperturerobotics/bifrost/zz_verifrt"

func c40N() int {
	if rt.Tier() > 0 {
		return 7
	}
	return 5
}

// VerifC40PrivateKey: decoding arbitrary bytes as PrivateKey returns a value or an error, never panics, and never
// allocates beyond the input-driven limit.
func VerifC40PrivateKey() {
	rt.AllocLimit(1 << 16)
	m := &PrivateKey{}
	err := m.UnmarshalVT(rt.Bytes("wire", 0, c40N()))
	if err == nil {
		rt.Reach("decoded")
		_ = m.SizeVT()
	} else {
		rt.Reach("rejected")
	}
	rt.Reach("end")
}

// VerifC40PublicKey: decoding arbitrary bytes as PublicKey returns a value or an error, never panics, and never
// allocates beyond the input-driven limit.
func VerifC40PublicKey() {
	rt.AllocLimit(1 << 16)
	m := &PublicKey{}
	err := m.UnmarshalVT(rt.Bytes("wire", 0, c40N()))
	if err == nil {
		rt.Reach("decoded")
		_ = m.SizeVT()
	} else {
		rt.Reach("rejected")
	}
	rt.Reach("end")
}

// VerifC40KeyParsers: the key parsers on arbitrary bytes return a key or an error.
func VerifC40KeyParsers() {
	b := rt.Bytes("wire", 0, c40N())
	k, err := UnmarshalPrivateKey(b)
	rt.Assert("private key parser: key or error", (k != nil) != (err != nil))
	p, err := UnmarshalPublicKey(b)
	rt.Assert("public key parser: key or error", (p != nil) != (err != nil))
	rt.Reach("end")
}
