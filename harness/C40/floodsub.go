package floodsub

import rt "github.com/aperturerobotics/bifrost/zz_verifrt"

func c40N() int {
	if rt.Tier() > 0 {
		return 7
	}
	return 5
}

// VerifC40Packet: decoding arbitrary bytes as Packet returns a value or an error, never panics, and never
// allocates beyond the input-driven limit.
func VerifC40Packet() {
	rt.AllocLimit(1 << 16)
	m := &Packet{}
	err := m.UnmarshalVT(rt.Bytes("wire", 0, c40N()))
	if err == nil {
		rt.Reach("decoded")
		_ = m.SizeVT()
	} else {
		rt.Reach("rejected")
	}
	rt.Reach("end")
}
