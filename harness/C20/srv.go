package signaling_rpc_server

import (
	"context"
	"crypto/ed25519"
	"io"

	"github.com/aperturerobotics/bifrost/crypto"
	"github.com/aperturerobotics/bifrost/hash"
	"github.com/aperturerobotics/bifrost/peer"
	signaling "github.com/aperturerobotics/bifrost/signaling/rpc"
	"github.com/aperturerobotics/starpc/srpc"
	"github.com/sirupsen/logrus"
	rt "github.com/aperturerobotics/bifrost/zz_verifrt"
)

// ---- shared doubles for the relay-server harnesses (C20, C22, C24, C25)

type svPeer struct {
	priv crypto.PrivKey
	id   peer.ID
	txt  string
}

func svNewPeer(b byte) *svPeer {
	seed := make([]byte, 32)
	for i := range seed {
		seed[i] = b + byte(i)
	}
	std := ed25519.NewKeyFromSeed(seed)
	k, _, err := crypto.KeyPairFromStdKey(&std)
	if err != nil {
		panic(err)
	}
	id, err := peer.IDFromPrivateKey(k)
	if err != nil {
		panic(err)
	}
	return &svPeer{priv: k, id: id, txt: id.String()}
}

type svWorld struct {
	srv *Server
	ids map[context.Context]peer.ID
}

func svNewWorld() *svWorld {
	w := &svWorld{ids: map[context.Context]peer.ID{}}
	w.srv = NewServerWithIdentify(logrus.NewEntry(logrus.New()), func(ctx context.Context) (peer.ID, error) {
		return w.ids[ctx], nil
	})
	return w
}

// svSession is a scripted Session stream: requests are fed by the harness, responses recorded.
type svSession struct {
	srpc.Stream
	name   string
	ctx    context.Context
	cancel context.CancelFunc
	reqCh  chan *signaling.SessionRequest
	sent   []*signaling.SessionResponse
	done   bool
	err    error
}

func (s *svSession) Context() context.Context { return s.ctx }
func (s *svSession) Recv() (*signaling.SessionRequest, error) {
	select {
	case r, ok := <-s.reqCh:
		if !ok {
			return nil, io.EOF
		}
		return r, nil
	case <-s.ctx.Done():
		return nil, s.ctx.Err()
	}
}
func (s *svSession) RecvTo(m *signaling.SessionRequest) error { panic("unused") }
func (s *svSession) Send(m *signaling.SessionResponse) error {
	s.sent = append(s.sent, m)
	return nil
}
func (s *svSession) SendAndClose(m *signaling.SessionResponse) error { return s.Send(m) }

// open starts a Session call of `me` and feeds its init packet for `to` (nil: no init yet).
func (w *svWorld) open(name string, me, to *svPeer) *svSession {
	ctx, cancel := context.WithCancel(context.Background())
	s := &svSession{name: name, ctx: ctx, cancel: cancel, reqCh: make(chan *signaling.SessionRequest, 8)}
	w.ids[ctx] = me.id
	if to != nil {
		s.reqCh <- &signaling.SessionRequest{Body: &signaling.SessionRequest_Init{Init: &signaling.SessionInit{PeerId: to.txt}}}
	}
	rt.Go(name, func() {
		s.err = w.srv.Session(s)
		s.done = true
	})
	return s
}

// lastAnnounced returns the last Opened epoch (0 = none) and whether the last announcement was Closed.
func (s *svSession) lastAnnounced() (opened uint64, isOpen bool, any bool) {
	for _, m := range s.sent {
		switch b := m.GetBody().(type) {
		case *signaling.SessionResponse_Opened:
			opened, isOpen, any = b.Opened, true, true
		case *signaling.SessionResponse_Closed:
			isOpen, any = false, true
		}
	}
	return
}

func (s *svSession) received() []*signaling.SessionMsg {
	var out []*signaling.SessionMsg
	for _, m := range s.sent {
		if b, ok := m.GetBody().(*signaling.SessionResponse_RecvMsg); ok {
			out = append(out, b.RecvMsg)
		}
	}
	return out
}

func svMsg(from *svPeer, body byte, seqno uint64) *signaling.SessionMsg {
	m, err := signaling.NewSessionMsg(from.priv, hash.HashType_HashType_SHA256, []byte{body}, seqno)
	if err != nil {
		panic(err)
	}
	return m
}

type svListen struct {
	srpc.Stream
	ctx    context.Context
	cancel context.CancelFunc
	sent   []*signaling.ListenResponse
	done   bool
	err    error
	// slowAt > 0: the slowAt-th Send blocks (a slow listen stream) until the harness closes gate
	slowAt int
	nsend  int
	gate   chan struct{}
}

func (l *svListen) Context() context.Context { return l.ctx }
func (l *svListen) Send(m *signaling.ListenResponse) error {
	l.nsend++
	if l.slowAt > 0 && l.nsend == l.slowAt {
		<-l.gate
	}
	l.sent = append(l.sent, m)
	return nil
}
func (l *svListen) SendAndClose(m *signaling.ListenResponse) error { return l.Send(m) }

func (w *svWorld) listen(name string, me *svPeer) *svListen {
	ctx, cancel := context.WithCancel(context.Background())
	l := &svListen{ctx: ctx, cancel: cancel, gate: make(chan struct{})}
	w.ids[ctx] = me.id
	rt.Go(name, func() {
		l.err = w.srv.Listen(&signaling.ListenRequest{}, l)
		l.done = true
	})
	return l
}

// announced is the set of peers currently announced (SetPeer minus ClearPeer) on a listen stream.
func (l *svListen) announced() map[string]bool {
	out := map[string]bool{}
	for _, m := range l.sent {
		switch b := m.GetBody().(type) {
		case *signaling.ListenResponse_SetPeer:
			out[b.SetPeer] = true
		case *signaling.ListenResponse_ClearPeer:
			delete(out, b.ClearPeer)
		}
	}
	return out
}
