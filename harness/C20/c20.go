package signaling_rpc_server

import (
	signaling "github.com/aperturerobotics/bifrost/signaling/rpc"
	rt "github.com/aperturerobotics/bifrost/zz_verifrt"
)

// VerifC20Forward: A and B hold a session; A (and an impostor C) submit requests. Every message
// the relay writes to B was verified, was signed by the peer that submitted it (A), was submitted
// under the current epoch, and goes to A's partner only. Bad submissions end the submitter's call.
func VerifC20Forward() {
	w := svNewWorld()
	A, B, C := svNewPeer(1), svNewPeer(60), svNewPeer(120)
	sa := w.open("A", A, B)
	sb := w.open("B", B, A)
	sc := w.open("C", C, B) // an unrelated session C->B; B has no session towards C
	rt.Quiesce()
	epoch, _, _ := sa.lastAnnounced()
	// one submission on A's stream, chosen arbitrarily
	kind := rt.Choose("submission", 5)
	var sub *signaling.SessionMsg
	switch kind {
	case 0: // honest
		sub = svMsg(A, 7, 1)
	case 1: // signed by C, submitted by A: sender mismatch
		sub = svMsg(C, 7, 1)
	case 2: // A's message with the body altered after signing
		sub = svMsg(A, 7, 1)
		sub.SignedMsg.Data = []byte{8}
	case 3: // A's message with the signature altered
		sub = svMsg(A, 7, 1)
		sub.SignedMsg.Signature.SigData[0] ^= 1
	case 4: // claims to be from B (partner) but signed by A
		sub = svMsg(A, 7, 1)
		sub.SignedMsg.FromPeerId = B.txt
	}
	rt.KnownFinding("C01-verify-error-dropped", kind == 2 || kind == 3)
	ep := epoch
	switch rt.Choose("epoch", 3) {
	case 1:
		ep = epoch - 1
	case 2:
		ep = epoch + 1
	}
	sa.reqCh <- &signaling.SessionRequest{SessionSeqno: ep, Body: &signaling.SessionRequest_SendMsg{SendMsg: sub}}
	rt.Quiesce()
	gotB := sb.received()
	rt.Assert("nothing is delivered to the unrelated session", len(sc.received()) == 0 && len(sa.received()) == 0)
	if len(gotB) > 0 {
		rt.Reach("forwarded")
		rt.Assert("forwarded exactly once", len(gotB) == 1)
		rt.Assert("only an authentic message from the submitting peer under the current epoch is forwarded", kind == 0 && ep == epoch)
		_, pid, err := gotB[0].ExtractAndVerify()
		rt.Assert("the forwarded message verifies and names the submitter", err == nil && pid == A.id)
	} else {
		rt.Reach("not forwarded")
		rt.Assert("an authentic current-epoch message is forwarded", !(kind == 0 && ep == epoch))
	}
	if kind != 0 {
		rt.Assert("a forged or mis-attributed submission ends the submitter's call with an error", sa.done && sa.err != nil)
	}
	if ep == epoch+1 {
		rt.Assert("a future epoch is an error for the submitter", sa.done && sa.err != nil)
	}
	rt.Reach("end")
}

// VerifC20Init: the first request must be an init naming another, non-empty peer.
func VerifC20Init() {
	w := svNewWorld()
	A, B := svNewPeer(1), svNewPeer(60)
	s := w.open("A", A, nil)
	switch rt.Choose("first", 4) {
	case 0:
		s.reqCh <- &signaling.SessionRequest{Body: &signaling.SessionRequest_AckMsg{AckMsg: 1}}
	case 1:
		s.reqCh <- &signaling.SessionRequest{Body: &signaling.SessionRequest_Init{Init: &signaling.SessionInit{PeerId: ""}}}
	case 2:
		s.reqCh <- &signaling.SessionRequest{Body: &signaling.SessionRequest_Init{Init: &signaling.SessionInit{PeerId: A.txt}}}
	case 3:
		s.reqCh <- &signaling.SessionRequest{SessionSeqno: 1, Body: &signaling.SessionRequest_Init{Init: &signaling.SessionInit{PeerId: B.txt}}}
	}
	rt.Quiesce()
	rt.Assert("a bad first request ends the call with an error", s.done && s.err != nil)
	rt.Assert("no relay state is left behind", len(w.srv.sessions) == 0 && len(w.srv.peers) == 0)
	rt.Reach("end")
}
