package signaling_rpc_server

import (
	"github.com/aperturerobotics/bifrost/crypto"
	"github.com/aperturerobotics/bifrost/hash"
	"github.com/aperturerobotics/bifrost/peer"
	signaling "github.com/aperturerobotics/bifrost/signaling/rpc"
	rt "github.com/aperturerobotics/bifrost/zz_verifrt"
)

// c20Packet is a submission whose every field is chosen independently: claimed sender among the
// identities a client could name (or junk), free body / signature bytes / hash type, optionally an
// attached public key. The closed world of signatures that exist: A's and C's session messages over
// the payload, and A's signature over the payload for another purpose.
func c20Packet(A, B, C *svPeer, payload []byte) (m *signaling.SessionMsg, same bool, honestA *peer.SignedMsg) {
	ma, err := signaling.NewSessionMsg(A.priv, hash.HashType_HashType_BLAKE3, payload, 1)
	rt.Assert("A's message", err == nil)
	_, err = signaling.NewSessionMsg(C.priv, hash.HashType_HashType_BLAKE3, payload, 1)
	rt.Assert("C's message", err == nil)
	_, err = peer.NewSignedMsg("some other protocol", A.priv, hash.HashType_HashType_BLAKE3, payload)
	rt.Assert("A's other-purpose message", err == nil)
	honestA = ma.SignedMsg
	pkt := &peer.SignedMsg{Signature: &peer.Signature{}}
	switch rt.Choose("from", 4) {
	case 0:
		pkt.FromPeerId = A.txt
	case 1:
		pkt.FromPeerId = C.txt
	case 2:
		pkt.FromPeerId = B.txt
	case 3:
		pkt.FromPeerId = rt.String("fromtxt", 0, 2)
	}
	pkt.Data = rt.Bytes("data", 0, 1)
	pkt.Signature.SigData = rt.Bytes("sig", 64, 64)
	pkt.Signature.HashType = hash.HashType(rt.U32("ht"))
	switch rt.Choose("pubkey", 3) {
	case 1:
		pkt.Signature.PubKey, _ = crypto.MarshalPublicKey(C.priv.GetPublic())
	case 2:
		pkt.Signature.PubKey, _ = crypto.MarshalPublicKey(A.priv.GetPublic())
	}
	same = rt.And(rt.And(rt.BytesEq(pkt.Data, honestA.Data), rt.BytesEq(pkt.Signature.SigData, honestA.Signature.SigData)),
		rt.And(pkt.FromPeerId == honestA.FromPeerId, pkt.Signature.HashType == honestA.Signature.HashType))
	return &signaling.SessionMsg{SignedMsg: pkt, Seqno: rt.U64("msgSeqno")}, same, honestA
}

// VerifC20Forward: A and B hold a session, C holds an unrelated session towards B. A's stream submits an
// arbitrary packet under an arbitrary epoch. Whatever the relay writes to B is the message A really
// signed for this session, submitted under the current epoch; nothing goes to anybody else; a forged,
// altered or re-attributed submission ends the submitter's call with an error.
func VerifC20Forward() {
	rt.SchedBound(0, false)
	w := svNewWorld()
	A, B, C := svNewPeer(1), svNewPeer(60), svNewPeer(120)
	sa := w.open("A", A, B)
	sb := w.open("B", B, A)
	sc := w.open("C", C, B)
	rt.Quiesce()
	epoch, isOpen, _ := sa.lastAnnounced()
	rt.Assert("A was told the session is open", isOpen && epoch > 0)
	sub, same, honestA := c20Packet(A, B, C, rt.Bytes("payload", 1, 1))
	// optionally the relay has already verified and forwarded A's authentic message on this stream
	// (verification keeps no state between submissions)
	n0 := 0
	if rt.Choose("authenticFirst", 2) == 1 {
		sa.reqCh <- &signaling.SessionRequest{SessionSeqno: epoch, Body: &signaling.SessionRequest_SendMsg{SendMsg: &signaling.SessionMsg{SignedMsg: honestA, Seqno: 1}}}
		rt.Quiesce()
		n0 = len(sb.received())
		rt.Assert("the authentic message is forwarded", n0 == 1 && !sa.done)
	}
	ep := rt.U64("epoch")
	sa.reqCh <- &signaling.SessionRequest{SessionSeqno: ep, Body: &signaling.SessionRequest_SendMsg{SendMsg: sub}}
	rt.Quiesce()
	gotB := sb.received()[n0:]
	rt.Assert("nothing is delivered to the submitter or to the unrelated session", len(sc.received()) == 0 && len(sa.received()) == 0)
	if len(gotB) > 0 {
		rt.Reach("forwarded")
		rt.Assert("forwarded exactly once", len(gotB) == 1)
		rt.Assert("only the authentic message of the submitting peer is forwarded", same)
		rt.Assert("only a submission under the current epoch is forwarded", ep == epoch)
		f := gotB[0].GetSignedMsg()
		rt.Assert("what is forwarded is what was signed", rt.BytesEq(f.GetData(), honestA.Data) && f.GetFromPeerId() == A.txt && rt.BytesEq(f.GetSignature().GetSigData(), honestA.Signature.SigData))
		rt.Assert("the message number is passed on unchanged", gotB[0].GetSeqno() == sub.GetSeqno())
	} else {
		rt.Reach("not forwarded")
		rt.Assert("an authentic current-epoch message is forwarded", !(rt.And(same, ep == epoch)))
	}
	if rt.Not(same) {
		rt.Reach("forged")
		rt.Assert("a forged, altered or mis-attributed submission ends the submitter's call with an error", sa.done && sa.err != nil)
	}
	if ep > epoch {
		rt.Assert("a future epoch is an error for the submitter", sa.done && sa.err != nil)
	}
	rt.Reach("end")
}

// VerifC20Init: the first request must be an init (epoch field zero) naming another, non-empty, well-formed peer.
func VerifC20Init() {
	rt.SchedBound(0, false)
	w := svNewWorld()
	A, B := svNewPeer(1), svNewPeer(60)
	s := w.open("A", A, nil)
	good := false
	switch rt.Choose("first", 5) {
	case 0:
		s.reqCh <- &signaling.SessionRequest{Body: &signaling.SessionRequest_AckMsg{AckMsg: rt.U64("ack")}}
	case 1:
		s.reqCh <- &signaling.SessionRequest{Body: &signaling.SessionRequest_Init{Init: &signaling.SessionInit{PeerId: rt.String("junkpeer", 0, 2)}}}
	case 2:
		s.reqCh <- &signaling.SessionRequest{Body: &signaling.SessionRequest_Init{Init: &signaling.SessionInit{PeerId: A.txt}}}
	case 3:
		n := rt.U64("initEpoch")
		good = n == 0
		s.reqCh <- &signaling.SessionRequest{SessionSeqno: n, Body: &signaling.SessionRequest_Init{Init: &signaling.SessionInit{PeerId: B.txt}}}
	case 4:
		s.reqCh <- &signaling.SessionRequest{Body: &signaling.SessionRequest_SendMsg{SendMsg: svMsg(A, 1, 1)}}
	}
	rt.Quiesce()
	if good {
		rt.Reach("accepted")
		rt.Assert("a proper init keeps the call running", !s.done)
	} else {
		rt.Reach("rejected")
		rt.Assert("a bad first request ends the call with an error", s.done && s.err != nil)
		rt.Assert("no relay state is left behind", len(w.srv.sessions) == 0 && len(w.srv.peers) == 0)
	}
	rt.Reach("end")
}
