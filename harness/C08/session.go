package stream_packet

import (
	"encoding/binary"
	"io"

	"github.com/aperturerobotics/bifrost/hash"
	rt "github.com/aperturerobotics/bifrost/zz_verifrt"
)

type c08Pipe struct {
	buf  []byte
	pos  int
	free int
}

func (p *c08Pipe) Write(b []byte) (int, error) {
	p.buf = append(p.buf, b...)
	return len(b), nil
}
func (p *c08Pipe) Close() error { return nil }
func (p *c08Pipe) Read(b []byte) (int, error) {
	rem := len(p.buf) - p.pos
	if rem == 0 {
		return 0, io.EOF
	}
	if len(b) == 0 {
		return 0, nil
	}
	max := rem
	if len(b) < max {
		max = len(b)
	}
	k := max
	if p.free > 0 && max > 1 {
		p.free--
		k = 1 + rt.Choose("chunk", max)
	}
	copy(b, p.buf[p.pos:p.pos+k])
	p.pos += k
	return k, nil
}

// VerifC08Session: messages sent with SendMsg are received unchanged and in order for every
// chunking; an empty message (zero length prefix) is legitimate and does not shift the framing.
func VerifC08Session() {
	pipe := &c08Pipe{free: 4}
	s := NewSession(pipe, 64)
	k := rt.IntRange("messages", 1, 3)
	msgs := make([]*hash.Hash, k)
	for i := range msgs {
		msgs[i] = &hash.Hash{}
		if rt.Choose("empty", 2) == 0 {
			msgs[i].HashType = hash.HashType(rt.IntRange("ht", 1, 3))
			msgs[i].Hash = rt.Bytes("digest", 0, 2)
		}
		rt.Assert("send", s.SendMsg(msgs[i]) == nil)
	}
	for i := range msgs {
		// callers hand RecvMsg a fresh (or Reset) message; vtproto's UnmarshalVT merges into its
		// receiver, so a dirty receiver is only meaningful for the empty message, which must Reset it
		got := &hash.Hash{}
		if msgs[i].GetHashType() == 0 && len(msgs[i].GetHash()) == 0 {
			got = &hash.Hash{HashType: 7, Hash: []byte{9}}
		}
		rt.Assert("recv", s.RecvMsg(got) == nil)
		rt.Assert("message unchanged", got.GetHashType() == msgs[i].GetHashType() && rt.BytesEq(got.GetHash(), msgs[i].GetHash()))
	}
	rt.Assert("stream fully consumed", pipe.pos == len(pipe.buf))
	rt.Assert("end of stream", s.RecvMsg(&hash.Hash{}) == io.EOF)
	rt.Reach("end")
}

// VerifC08SessionArbitrary: arbitrary bytes: over-limit length is rejected before allocation,
// truncated frames give an error, never a panic.
func VerifC08SessionArbitrary() {
	n := 6
	if rt.Tier() > 0 {
		n = 8
	}
	const max = 3
	data := rt.Bytes("stream", 0, n)
	pipe := &c08Pipe{buf: data, free: 2}
	s := NewSession(pipe, max)
	rt.AllocLimit(max)
	m := &hash.Hash{}
	err := s.RecvMsg(m)
	if len(data) >= 4 {
		l := binary.LittleEndian.Uint32(data[:4])
		if l > max {
			rt.Reach("over limit")
			rt.Assert("over-limit length rejected", err != nil)
			rt.Assert("nothing beyond the prefix is consumed", pipe.pos == 4)
		} else if uint32(len(data)-4) < l {
			rt.Assert("truncated frame rejected", err != nil)
		} else if l == 0 {
			rt.Assert("empty message accepted", err == nil && m.GetHashType() == 0 && len(m.GetHash()) == 0)
			rt.Assert("exactly the prefix consumed", pipe.pos == 4)
		} else if err == nil {
			rt.Assert("exactly one frame consumed", pipe.pos == 4+int(l))
		}
	} else {
		rt.Assert("short prefix rejected", err != nil)
	}
	rt.Reach("end")
}
