package rwc

import (
	"context"
	"encoding/binary"
	"io"

	rt "github.com/aperturerobotics/bifrost/zz_verifrt"
)

// c08Pipe records writes and serves the recorded bytes back in arbitrary chunks.
type c08Pipe struct {
	buf    []byte
	pos    int
	free   int
	writes int
}

func (p *c08Pipe) Write(b []byte) (int, error) {
	p.writes++
	p.buf = append(p.buf, b...)
	return len(b), nil
}
func (p *c08Pipe) Close() error { return nil }
func (p *c08Pipe) Read(b []byte) (int, error) {
	rem := len(p.buf) - p.pos
	if rem == 0 {
		return 0, io.EOF
	}
	if len(b) == 0 {
		return 0, nil
	}
	max := rem
	if len(b) < max {
		max = len(b)
	}
	k := max
	if p.free > 0 && max > 1 {
		p.free--
		k = 1 + rt.Choose("chunk", max)
	}
	copy(b, p.buf[p.pos:p.pos+k])
	p.pos += k
	return k, nil
}

func c08Conn(rwc io.ReadWriteCloser, max uint32) *PacketConn {
	return &PacketConn{ctx: context.Background(), rwc: rwc, maxPacketSize: max, packetCh: make(chan []byte, 16)}
}

// VerifC08RoundTrip: packets written with WriteTo come out of ReadFrom with the same count, order,
// content and boundaries, for every chunking of the byte stream in between.
func VerifC08RoundTrip() {
	maxSize := 3
	if rt.Tier() > 0 {
		maxSize = 5
	}
	pipe := &c08Pipe{free: 4}
	tx := c08Conn(pipe, uint32(maxSize))
	npk := rt.IntRange("packets", 1, 3)
	pkts := make([][]byte, npk)
	for i := range pkts {
		pkts[i] = rt.Bytes("pkt", 1, maxSize)
		n, err := tx.WriteTo(pkts[i], nil)
		rt.Assert("WriteTo reports the packet length", err == nil && n == len(pkts[i]))
	}
	rt.Assert("one underlying write per packet", pipe.writes == npk)
	rx := c08Conn(pipe, uint32(maxSize))
	perr := rx.rxPump()
	rt.Assert("pump ends with EOF at the end of the stream", perr == io.EOF)
	for i := range pkts {
		b := make([]byte, maxSize)
		n, _, err := rx.ReadFrom(b)
		rt.Assert("packet delivered", err == nil)
		rt.Assert("packet boundary preserved", n == len(pkts[i]))
		rt.Assert("packet content preserved", rt.BytesEq(b[:n], pkts[i]))
	}
	_, _, err := rx.ReadFrom(make([]byte, 1))
	rt.Assert("no further packets", err == io.EOF)
	rt.Reach("end")
}

// c08RefDeframe is the reference deframer: 4-byte little-endian length, then the payload.
func c08RefDeframe(data []byte, max uint32) (pkts [][]byte, clean bool) {
	for len(data) > 0 {
		if len(data) < 4 {
			return pkts, false
		}
		n := binary.LittleEndian.Uint32(data[:4])
		if n == 0 || n > max {
			return pkts, false
		}
		if uint32(len(data)-4) < n {
			return pkts, false
		}
		pkts = append(pkts, data[4:4+n])
		data = data[4+n:]
	}
	return pkts, true
}

// VerifC08Arbitrary: arbitrary stream bytes are deframed exactly like the reference; a zero or
// over-limit prefix or a truncated frame ends the stream with an error and nothing after it is
// delivered; a too-small reader buffer gets io.ErrShortBuffer.
func VerifC08Arbitrary() {
	n := 9
	if rt.Tier() > 0 {
		n = 12
	}
	const max = 3
	data := rt.Bytes("stream", 0, n)
	pipe := &c08Pipe{buf: data, free: 2}
	rx := c08Conn(pipe, max)
	perr := rx.rxPump()
	want, clean := c08RefDeframe(data, max)
	if clean {
		rt.Reach("clean stream")
		rt.Assert("clean stream ends with EOF", perr == io.EOF)
	} else {
		rt.Reach("bad stream")
		rt.Assert("malformed stream ends with an error", perr != nil)
	}
	for i := range want {
		bl := 1 + rt.Choose("buflen", max)
		b := make([]byte, bl)
		got, _, err := rx.ReadFrom(b)
		if bl < len(want[i]) {
			rt.Assert("short buffer is reported", err == io.ErrShortBuffer && got == bl)
			rt.Assert("prefix content", rt.BytesEq(b, want[i][:bl]))
		} else {
			rt.Assert("reference packet delivered", err == nil && got == len(want[i]))
			rt.Assert("reference packet content", rt.BytesEq(b[:got], want[i]))
		}
	}
	got, _, err := rx.ReadFrom(make([]byte, max))
	rt.Assert("nothing after the last well-formed packet", got == 0 && err != nil)
	rt.Assert("the pump's error is surfaced", err == perr)
	rt.Reach("end")
}
