package bifrost_rpc

import (
	"context"
	"regexp"

	"github.com/aperturerobotics/controllerbus/directive"
	"github.com/aperturerobotics/starpc/srpc"
	rt "github.com/aperturerobotics/bifrost/zz_verifrt"
)

type c35DI struct {
	directive.Instance
	d directive.Directive
}

func (d c35DI) GetDirective() directive.Directive { return d.d }

type c35Other struct{ directive.Directive }

func c35Prefixes(tag string) []string {
	n := rt.IntRange(tag+"N", 0, 2)
	var out []string
	for i := 0; i < n; i++ {
		// configured prefixes are non-empty (an empty matched prefix means "no match" in starpc)
		out = append(out, rt.String(tag, 1, 2))
	}
	return out
}

func c35HasPrefix(s, p string) bool { return len(s) >= len(p) && s[:len(p)] == p }

// VerifC35RpcService: a service registration answers a lookup exactly when the service id passes
// its prefix / pattern / list filter (or there is no filter) and the server id passes the server
// pattern.
func VerifC35RpcService() {
	prefixes := c35Prefixes("prefix")
	var svcRe, srvRe *regexp.Regexp
	if rt.Choose("svcRe", 2) == 1 {
		svcRe = rt.Regexp("svc", "^a")
	}
	if rt.Choose("srvRe", 2) == 1 {
		srvRe = rt.Regexp("srv", "^s")
	}
	var list []string
	nl := rt.IntRange("listN", 0, 2)
	for i := 0; i < nl; i++ {
		list = append(list, rt.String("listed", 0, 2))
	}
	c := &RpcServiceController{serviceIdPrefixes: prefixes, stripServiceIdPrefix: rt.Bool("strip"), serviceIdRe: svcRe, serviceIdList: list, serverIdRe: srvRe}
	svc := rt.String("service", 0, 3)
	srv := rt.String("server", 0, 1)
	res, err := c.HandleDirective(context.Background(), c35DI{d: NewLookupRpcService(svc, srv)})
	rt.Assert("no error", err == nil)
	noFilter := len(prefixes) == 0 && svcRe == nil && len(list) == 0
	byPrefix := false
	for _, p := range prefixes {
		byPrefix = rt.Or(byPrefix, c35HasPrefix(svc, p))
	}
	byRe := svcRe != nil && rt.RegexpMatches(svcRe, svc)
	byList := false
	for _, l := range list {
		byList = rt.Or(byList, l == svc)
	}
	svcOK := rt.Or(rt.Or(noFilter, byPrefix), rt.Or(byRe, byList))
	srvOK := srvRe == nil || rt.RegexpMatches(srvRe, srv)
	rt.Assert("answers iff the service filter and the server filter both pass", (len(res) != 0) == rt.And(svcOK, srvOK))
	res, err = c.HandleDirective(context.Background(), c35DI{d: c35Other{}})
	rt.Assert("other directives are ignored", err == nil && len(res) == 0)
	rt.Reach("end")
}

// VerifC35Invoker: an invoker registration answers exactly when a configured prefix matches.
func VerifC35Invoker() {
	prefixes := c35Prefixes("prefix")
	c := &InvokerController{matchServicePrefixes: prefixes}
	svc := rt.String("service", 0, 3)
	res, err := c.HandleDirective(context.Background(), c35DI{d: NewLookupRpcService(svc, "")})
	rt.Assert("no error", err == nil)
	byPrefix := len(prefixes) == 0
	for _, p := range prefixes {
		byPrefix = rt.Or(byPrefix, c35HasPrefix(svc, p))
	}
	rt.Assert("answers iff there is no prefix filter or a configured prefix matches", (len(res) != 0) == byPrefix)
	rt.Reach("end")
}

// VerifC35StripPrefix: the prefix invoker strips exactly the first configured prefix that matches.
func VerifC35StripPrefix() {
	prefixes := c35Prefixes("prefix")
	id := rt.String("service", 0, 3)
	stripped, matched := srpc.CheckStripPrefix(id, prefixes)
	first := -1
	for i := len(prefixes) - 1; i >= 0; i-- {
		if c35HasPrefix(id, prefixes[i]) {
			first = i
		}
	}
	if first < 0 {
		rt.Reach("no match")
		rt.Assert("no match leaves the id unchanged", stripped == id && matched == "")
	} else {
		rt.Reach("match")
		rt.Assert("the first matching configured prefix is reported", matched == prefixes[first])
		rt.Assert("exactly the matched prefix is removed", matched+stripped == id)
	}
	rt.Reach("end")
}
