package bifrost_http

import (
	"context"
	"net/url"
	"regexp"

	"github.com/aperturerobotics/controllerbus/directive"
	rt "github.com/aperturerobotics/bifrost/zz_verifrt"
)

type c35DI struct {
	directive.Instance
	d directive.Directive
}

func (d c35DI) GetDirective() directive.Directive { return d.d }

type c35Other struct{ directive.Directive }

func c35HasPrefix(s, p string) bool { return len(s) >= len(p) && s[:len(p)] == p }

// VerifC35HTTPHandler: an HTTP handler registration answers exactly when the request path passes
// its prefix or pattern filter (or there is none).
func VerifC35HTTPHandler() {
	n := rt.IntRange("prefixN", 0, 2)
	var prefixes []string
	for i := 0; i < n; i++ {
		prefixes = append(prefixes, rt.String("prefix", 1, 2))
	}
	var re *regexp.Regexp
	if rt.Choose("pathRe", 2) == 1 {
		re = rt.Regexp("path", "^/a")
	}
	c := &HTTPHandlerController{pathPrefixes: prefixes, stripPathPrefix: rt.Bool("strip"), pathRe: re}
	path := rt.String("path", 0, 3)
	u := &url.URL{Path: path}
	res, err := c.HandleDirective(context.Background(), c35DI{d: NewLookupHTTPHandler("GET", u, "")})
	rt.Assert("no error", err == nil)
	ok := len(prefixes) == 0 && re == nil
	for _, p := range prefixes {
		ok = rt.Or(ok, c35HasPrefix(path, p))
	}
	ok = rt.Or(ok, re != nil && rt.RegexpMatches(re, path))
	rt.Assert("answers iff the path filter passes", (len(res) != 0) == ok)
	res, err = c.HandleDirective(context.Background(), c35DI{d: c35Other{}})
	rt.Assert("other directives are ignored", err == nil && len(res) == 0)
	rt.Reach("end")
}
