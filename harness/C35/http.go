package bifrost_http

import (
	"context"
	"net/http"
	"net/url"
	"regexp"

	"github.com/aperturerobotics/controllerbus/directive"
	rt "github.com/aperturerobotics/bifrost/zz_verifrt"
)

type c35DI struct {
	directive.Instance
	d directive.Directive
}

func (d c35DI) GetDirective() directive.Directive { return d.d }

type c35Other struct{ directive.Directive }

func c35HasPrefix(s, p string) bool { return len(s) >= len(p) && s[:len(p)] == p }

// VerifC35HTTPHandler: an HTTP handler registration answers exactly when the request path passes
// its prefix or pattern filter (or there is none).
func VerifC35HTTPHandler() {
	n := rt.IntRange("prefixN", 0, 2)
	var prefixes []string
	for i := 0; i < n; i++ {
		prefixes = append(prefixes, rt.String("prefix", 1, 2))
	}
	var re *regexp.Regexp
	if rt.Choose("pathRe", 2) == 1 {
		re = rt.Regexp("path", "^/a")
	}
	c := &HTTPHandlerController{pathPrefixes: prefixes, stripPathPrefix: rt.Bool("strip"), pathRe: re}
	path := rt.String("path", 0, 3)
	u := &url.URL{Path: path}
	res, err := c.HandleDirective(context.Background(), c35DI{d: NewLookupHTTPHandler("GET", u, "")})
	rt.Assert("no error", err == nil)
	ok := len(prefixes) == 0 && re == nil
	for _, p := range prefixes {
		ok = rt.Or(ok, c35HasPrefix(path, p))
	}
	ok = rt.Or(ok, re != nil && rt.RegexpMatches(re, path))
	rt.Assert("answers iff the path filter passes", (len(res) != 0) == ok)
	res, err = c.HandleDirective(context.Background(), c35DI{d: c35Other{}})
	rt.Assert("other directives are ignored", err == nil && len(res) == 0)
	rt.Reach("end")
}

type c35Rec struct{ paths []string }

func (r *c35Rec) ServeHTTP(w http.ResponseWriter, req *http.Request) {
	r.paths = append(r.paths, req.URL.Path)
}

type c35RH struct {
	directive.ResolverHandler
	vals []directive.Value
}

func (h *c35RH) AddValue(v directive.Value) (uint32, bool) {
	h.vals = append(h.vals, v)
	return uint32(len(h.vals)), true
}
func (h *c35RH) MarkIdle(bool)         {}
func (h *c35RH) ClearValues() []uint32 { h.vals = nil; return nil }

// VerifC35HTTPStrip: the handler a matched request is given sees the request path with exactly the
// first configured prefix that matches removed (when stripping is on), and the unchanged path otherwise.
func VerifC35HTTPStrip() {
	rt.SchedBound(0, false)
	n := rt.IntRange("prefixN", 1, 2)
	var prefixes []string
	for i := 0; i < n; i++ {
		prefixes = append(prefixes, rt.String("prefix", 1, 2))
	}
	strip := rt.Bool("strip")
	inner := &c35Rec{}
	c := NewHTTPHandlerController(nil, NewHTTPHandlerBuilder(inner), prefixes, strip, nil)
	ctx, cancel := context.WithCancel(context.Background())
	_ = c.Execute(ctx)
	path := rt.String("path", 0, 3)
	res, err := c.HandleDirective(ctx, c35DI{d: NewLookupHTTPHandler("GET", &url.URL{Path: path}, "")})
	rt.Assert("no error", err == nil)
	first := -1
	for i, p := range prefixes {
		if first < 0 && c35HasPrefix(path, p) {
			first = i
		}
	}
	if first < 0 {
		rt.Reach("no prefix matches")
		rt.Assert("a path outside every configured prefix is not answered", len(res) == 0)
		cancel()
		return
	}
	rt.Assert("a path under a configured prefix is answered", len(res) == 1)
	rh := &c35RH{}
	rt.Go("resolve", func() { _ = res[0].Resolve(ctx, rh) })
	rt.Quiesce()
	rt.Assert("the lookup yields one handler", len(rh.vals) == 1)
	h, ok := rh.vals[0].(http.Handler)
	rt.Assert("the value is an http handler", ok)
	h.ServeHTTP(nil, &http.Request{Method: "GET", URL: &url.URL{Path: path}})
	rt.Assert("the registered handler is reached once", len(inner.paths) == 1)
	want := path
	if strip {
		want = path[len(prefixes[first]):]
		rt.Reach("stripped")
	}
	rt.Assert("the handler sees the path minus exactly the first matching prefix (or unchanged without stripping)", inner.paths[0] == want)
	cancel()
	rt.Quiesce()
	rt.Reach("end")
}
