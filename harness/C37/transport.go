package transport

import (
	"github.com/aperturerobotics/bifrost/peer"
	"github.com/aperturerobotics/controllerbus/directive"
	rt "github.com/aperturerobotics/bifrost/zz_verifrt"
)

type c37Other struct{ directive.Directive }

func VerifC37LookupTransport() {
	rt.Assert("harness covers every parameter method", rt.OwnMethods((*LookupTransport)(nil), (*directive.Directive)(nil)) == 2)
	p1, p2 := rt.String("peer1", 0, 3), rt.String("peer2", 0, 3)
	t1, t2 := rt.U64("tpt1"), rt.U64("tpt2")
	a, b := NewLookupTransport(peer.ID(p1), t1), NewLookupTransport(peer.ID(p2), t2)
	rt.Assert("equivalent iff all parameters are equal", rt.Iff(a.(directive.DirectiveWithEquiv).IsEquivalent(b), rt.And(p1 == p2, t1 == t2)))
	rt.Assert("a different directive type is never equivalent", !a.(directive.DirectiveWithEquiv).IsEquivalent(c37Other{}))
	rt.Reach("end")
}
