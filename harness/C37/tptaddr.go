package tptaddr

import (
	"github.com/aperturerobotics/bifrost/peer"
	"github.com/aperturerobotics/bifrost/transport/common/dialer"
	"github.com/aperturerobotics/controllerbus/directive"
	rt "github.com/aperturerobotics/bifrost/zz_verifrt"
)

type c37Other struct{ directive.Directive }

func VerifC37DialTptAddr() {
	rt.Assert("harness covers every parameter method", rt.OwnMethods((*DialTptAddr)(nil), (*directive.Directive)(nil)) == 3)
	s1, s2 := rt.String("src1", 0, 2), rt.String("src2", 0, 2)
	d1, d2 := rt.String("dst1", 0, 2), rt.String("dst2", 0, 2)
	a1, a2 := rt.String("addr1", 0, 2), rt.String("addr2", 0, 2)
	var o1, o2 *dialer.DialerOpts
	if rt.Choose("opts1", 2) == 1 {
		o1 = &dialer.DialerOpts{Address: a1}
	} else {
		a1 = ""
	}
	if rt.Choose("opts2", 2) == 1 {
		o2 = &dialer.DialerOpts{Address: a2}
	} else {
		a2 = ""
	}
	a := NewDialTptAddr(o1, peer.ID(s1), peer.ID(d1))
	b := NewDialTptAddr(o2, peer.ID(s2), peer.ID(d2))
	// the dial address is the part of the dialer options the resolver keys on (stated narrowing)
	same := rt.And(a1 == a2, rt.And(s1 == s2, d1 == d2))
	rt.Assert("equivalent iff source, target and dial address are equal", rt.Iff(a.(directive.DirectiveWithEquiv).IsEquivalent(b), same))
	rt.Assert("a different directive type is never equivalent", !a.(directive.DirectiveWithEquiv).IsEquivalent(c37Other{}))
	rt.Reach("end")
}

func VerifC37LookupTptAddr() {
	rt.Assert("harness covers every parameter method", rt.OwnMethods((*LookupTptAddr)(nil), (*directive.Directive)(nil)) == 1)
	d1, d2 := rt.String("dst1", 0, 3), rt.String("dst2", 0, 3)
	a, b := NewLookupTptAddr(peer.ID(d1)), NewLookupTptAddr(peer.ID(d2))
	rt.Assert("equivalent iff target equal", rt.Iff(a.(directive.DirectiveWithEquiv).IsEquivalent(b), d1 == d2))
	rt.Assert("a different directive type is never equivalent", !a.(directive.DirectiveWithEquiv).IsEquivalent(c37Other{}))
	rt.Reach("end")
}
