package link

import (
	"github.com/aperturerobotics/bifrost/peer"
	"github.com/aperturerobotics/bifrost/protocol"
	"github.com/aperturerobotics/controllerbus/directive"
	rt "github.com/aperturerobotics/bifrost/zz_verifrt"
)

type c37Other struct{ directive.Directive }

func VerifC37EstablishLink() {
	rt.Assert("harness covers every parameter method", rt.OwnMethods((*EstablishLinkWithPeer)(nil), (*directive.Directive)(nil)) == 2)
	s1, s2 := rt.String("src1", 0, 2), rt.String("src2", 0, 2)
	d1, d2 := rt.String("dst1", 0, 2), rt.String("dst2", 0, 2)
	a := NewEstablishLinkWithPeer(peer.ID(s1), peer.ID(d1))
	b := NewEstablishLinkWithPeer(peer.ID(s2), peer.ID(d2))
	same := rt.And(s1 == s2, d1 == d2)
	eq := a.(directive.DirectiveWithEquiv).IsEquivalent(b)
	rt.Assert("equivalent iff all parameters are equal", rt.Iff(eq, same))
	rt.Assert("a different directive type is never equivalent", !a.(directive.DirectiveWithEquiv).IsEquivalent(c37Other{}))
	rt.Reach("end")
}

func VerifC37HandleMountedStream() {
	rt.Assert("harness covers every parameter method", rt.OwnMethods((*HandleMountedStream)(nil), (*directive.Directive)(nil)) == 3)
	p1, p2 := rt.String("pid1", 0, 2), rt.String("pid2", 0, 2)
	l1, l2 := rt.String("local1", 0, 2), rt.String("local2", 0, 2)
	r1, r2 := rt.String("remote1", 0, 2), rt.String("remote2", 0, 2)
	a := NewHandleMountedStream(protocol.ID(p1), peer.ID(l1), peer.ID(r1))
	b := NewHandleMountedStream(protocol.ID(p2), peer.ID(l2), peer.ID(r2))
	same := rt.And(p1 == p2, rt.And(l1 == l2, r1 == r2))
	rt.Assert("equivalent iff all parameters are equal", rt.Iff(a.(directive.DirectiveWithEquiv).IsEquivalent(b), same))
	rt.Assert("a different directive type is never equivalent", !a.(directive.DirectiveWithEquiv).IsEquivalent(c37Other{}))
	rt.Reach("end")
}
