package link_solicit

import (
	"github.com/aperturerobotics/bifrost/peer"
	"github.com/aperturerobotics/bifrost/protocol"
	"github.com/aperturerobotics/controllerbus/directive"
	rt "github.com/aperturerobotics/bifrost/zz_verifrt"
)

// VerifC37Solicit: two SolicitProtocol directives are equivalent only if every parameter is equal.
func VerifC37Solicit() {
	rt.Assert("harness covers every parameter method", rt.OwnMethods((*SolicitProtocol)(nil), (*directive.Directive)(nil)) == 4)
	p1, p2 := rt.String("pid1", 0, 2), rt.String("pid2", 0, 2)
	c1, c2 := rt.Bytes("ctx1", 0, 2), rt.Bytes("ctx2", 0, 2)
	r1, r2 := rt.String("peer1", 0, 2), rt.String("peer2", 0, 2)
	t1, t2 := rt.U64("tpt1"), rt.U64("tpt2")
	a := NewSolicitProtocol(protocol.ID(p1), c1, peer.ID(r1), t1)
	b := NewSolicitProtocol(protocol.ID(p2), c2, peer.ID(r2), t2)
	same := rt.And(rt.And(p1 == p2, rt.BytesEq(c1, c2)), rt.And(r1 == r2, t1 == t2))
	eq := a.(directive.DirectiveWithEquiv).IsEquivalent(b)
	rt.KnownFinding("C37-solicit-transport-id-ignored", rt.And(t1 != t2, rt.And(rt.And(p1 == p2, rt.BytesEq(c1, c2)), r1 == r2)))
	rt.Assert("equivalent only if all parameters are equal", rt.Implies(eq, same))
	rt.Assert("identical parameters are equivalent", rt.Implies(same, eq))
	rt.Assert("a different directive type is never equivalent", !a.(directive.DirectiveWithEquiv).IsEquivalent(c37Other{}))
	rt.Reach("end")
}

type c37Other struct{ directive.Directive }
