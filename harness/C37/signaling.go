package signaling

import (
	"github.com/aperturerobotics/bifrost/peer"
	"github.com/aperturerobotics/controllerbus/directive"
	rt "github.com/aperturerobotics/bifrost/zz_verifrt"
)

type c37Other struct{ directive.Directive }

func VerifC37SignalPeer() {
	rt.Assert("harness covers every parameter method", rt.OwnMethods((*SignalPeer)(nil), (*directive.Directive)(nil)) == 3)
	s1, s2 := rt.String("sig1", 0, 2), rt.String("sig2", 0, 2)
	l1, l2 := rt.String("local1", 0, 2), rt.String("local2", 0, 2)
	r1, r2 := rt.String("remote1", 0, 2), rt.String("remote2", 0, 2)
	a := NewSignalPeer(s1, peer.ID(l1), peer.ID(r1))
	b := NewSignalPeer(s2, peer.ID(l2), peer.ID(r2))
	same := rt.And(s1 == s2, rt.And(l1 == l2, r1 == r2))
	rt.Assert("equivalent iff all parameters are equal", rt.Iff(a.(directive.DirectiveWithEquiv).IsEquivalent(b), same))
	rt.Assert("a different directive type is never equivalent", !a.(directive.DirectiveWithEquiv).IsEquivalent(c37Other{}))
	rt.Reach("end")
}
