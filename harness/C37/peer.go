package peer

import (
	"github.com/aperturerobotics/controllerbus/directive"
	rt "github.com/aperturerobotics/bifrost/zz_verifrt"
)

type c37Other struct{ directive.Directive }

func VerifC37GetPeer() {
	rt.Assert("harness covers every parameter method", rt.OwnMethods((*GetPeer)(nil), (*directive.Directive)(nil)) == 1)
	p1, p2 := rt.String("peer1", 0, 3), rt.String("peer2", 0, 3)
	a, b := NewGetPeer(ID(p1)), NewGetPeer(ID(p2))
	rt.Assert("equivalent iff constraint equal", rt.Iff(a.(directive.DirectiveWithEquiv).IsEquivalent(b), p1 == p2))
	rt.Assert("a different directive type is never equivalent", !a.(directive.DirectiveWithEquiv).IsEquivalent(c37Other{}))
	rt.Reach("end")
}
