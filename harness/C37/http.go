package bifrost_http

import (
	"net/url"

	"github.com/aperturerobotics/controllerbus/directive"
	rt "github.com/aperturerobotics/bifrost/zz_verifrt"
)

type c37Other struct{ directive.Directive }

func VerifC37LookupHTTPHandler() {
	rt.Assert("harness covers every parameter method", rt.OwnMethods((*LookupHTTPHandler)(nil), (*directive.Directive)(nil)) == 3)
	part := rt.Choose("urlPart", 6)
	m1, m2, c1, c2, p1, p2 := "GET", "GET", "c", "c", "p", "p"
	h1, h2 := "a", "a"
	if part == 0 {
		// method, client, host and path vary (symbolic); the other URL parts are empty
		m1, m2 = rt.String("method1", 0, 1), rt.String("method2", 0, 1)
		c1, c2 = rt.String("client1", 0, 1), rt.String("client2", 0, 1)
		if rt.Choose("host2", 2) == 1 {
			h2 = "b"
		}
		p1, p2 = rt.String("path1", 0, 1), rt.String("path2", 0, 1)
	}
	u1 := &url.URL{Scheme: "http", Host: h1, Path: "/" + p1}
	u2 := &url.URL{Scheme: "http", Host: h2, Path: "/" + p2}
	// with everything else equal, the second URL differs in one other part
	switch part {
	case 1:
		u2.User = url.User("bob")
		u1.User = url.User("alice")
	case 2:
		u2.RawQuery = "x=1"
	case 3:
		u2.Fragment = "top"
	case 4:
		u1.Path, u1.RawPath = "/a/b", "/a%2Fb"
		u2.Path, u2.RawPath = "/a/b", ""
	case 5:
		u1 = &url.URL{Scheme: "mailto", Opaque: "a@x"}
		u2 = &url.URL{Scheme: "mailto", Opaque: "b@x"}
	}
	a := NewLookupHTTPHandler(m1, u1, c1)
	b := NewLookupHTTPHandler(m2, u2, c2)
	// the URL's text form is what the resolvers match on
	same := rt.And(rt.And(m1 == m2, c1 == c2), u1.String() == u2.String())
	rt.Assert("equivalent iff method, client and URL text are equal", rt.Iff(a.(directive.DirectiveWithEquiv).IsEquivalent(b), same))
	rt.Assert("a different directive type is never equivalent", !a.(directive.DirectiveWithEquiv).IsEquivalent(c37Other{}))
	rt.Reach("end")
}
