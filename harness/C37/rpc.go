package bifrost_rpc

import (
	"github.com/aperturerobotics/controllerbus/directive"
	rt "github.com/aperturerobotics/bifrost/zz_verifrt"
)

type c37Other struct{ directive.Directive }

func VerifC37LookupRpcService() {
	rt.Assert("harness covers every parameter method", rt.OwnMethods((*LookupRpcService)(nil), (*directive.Directive)(nil)) == 2)
	s1, s2 := rt.String("svc1", 0, 3), rt.String("svc2", 0, 3)
	c1, c2 := rt.String("srv1", 0, 2), rt.String("srv2", 0, 2)
	a, b := NewLookupRpcService(s1, c1), NewLookupRpcService(s2, c2)
	rt.Assert("equivalent iff all parameters are equal", rt.Iff(a.(directive.DirectiveWithEquiv).IsEquivalent(b), rt.And(s1 == s2, c1 == c2)))
	rt.Assert("a different directive type is never equivalent", !a.(directive.DirectiveWithEquiv).IsEquivalent(c37Other{}))
	// a client lookup is a different request even with equal strings
	rt.Assert("service lookup is not a client lookup", !a.(directive.DirectiveWithEquiv).IsEquivalent(NewLookupRpcClient(s1, c1)))
	rt.Reach("end")
}

func VerifC37LookupRpcClient() {
	rt.Assert("harness covers every parameter method", rt.OwnMethods((*LookupRpcClient)(nil), (*directive.Directive)(nil)) == 2)
	s1, s2 := rt.String("svc1", 0, 3), rt.String("svc2", 0, 3)
	c1, c2 := rt.String("cl1", 0, 2), rt.String("cl2", 0, 2)
	a, b := NewLookupRpcClient(s1, c1), NewLookupRpcClient(s2, c2)
	rt.Assert("equivalent iff all parameters are equal", rt.Iff(a.(directive.DirectiveWithEquiv).IsEquivalent(b), rt.And(s1 == s2, c1 == c2)))
	rt.Assert("a different directive type is never equivalent", !a.(directive.DirectiveWithEquiv).IsEquivalent(c37Other{}))
	rt.Assert("client lookup is not a service lookup", !a.(directive.DirectiveWithEquiv).IsEquivalent(NewLookupRpcService(s1, c1)))
	rt.Reach("end")
}
