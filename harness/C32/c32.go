package link_solicit

import (
	"github.com/aperturerobotics/bifrost/peer"
	rt "github.com/aperturerobotics/bifrost/zz_verifrt"
)

// VerifC32Symmetric: both ends compute the same session id.
func VerifC32Symmetric() {
	n := 3
	if rt.Tier() > 0 {
		n = 5
	}
	a := peer.ID(rt.String("a", 0, n))
	b := peer.ID(rt.String("b", 0, n))
	s1 := ComputeSessionID(a, b)
	s2 := ComputeSessionID(b, a)
	rt.Assert("session id has HashSize bytes", len(s1) == HashSize)
	rt.Assert("session id is symmetric", rt.BytesEq(s1, s2))
	rt.Reach("end")
}

// c32WellFormed: a peer id is a self-delimiting multihash: code byte 0, one-byte length, digest.
func c32WellFormed(id string) bool {
	if len(id) < 2 {
		return false
	}
	return rt.And(id[0] == 0, int(id[1]) == len(id)-2)
}

// VerifC32Injective: different unordered pairs of well-formed ids give different session ids.
func VerifC32Injective() {
	n := 4
	if rt.Tier() > 0 {
		n = 5
	}
	a, b := rt.String("a", 2, n), rt.String("b", 2, n)
	c, d := rt.String("c", 2, n), rt.String("d", 2, n)
	rt.Assume(rt.And(rt.And(c32WellFormed(a), c32WellFormed(b)), rt.And(c32WellFormed(c), c32WellFormed(d))))
	s1 := ComputeSessionID(peer.ID(a), peer.ID(b))
	s2 := ComputeSessionID(peer.ID(c), peer.ID(d))
	samePair := rt.Or(rt.And(a == c, b == d), rt.And(a == d, b == c))
	rt.Assert("equal session ids iff same unordered pair", rt.Iff(rt.BytesEq(s1, s2), samePair))
	rt.Reach("end")
}

// VerifC32Long: the same for ids of realistic length (Ed25519 ids are 38 bytes; two of them exceed any
// 64-byte block or buffer): pairs that differ in any byte, including the last ones of the higher id,
// give different session ids.
func VerifC32Long() {
	n := 38
	if rt.Tier() > 0 && rt.Choose("len", 2) == 1 {
		n = 70
	}
	a, b := rt.String("a", n, n), rt.String("b", n, n)
	c, d := rt.String("c", n, n), rt.String("d", n, n)
	rt.Assume(rt.And(rt.And(c32WellFormed(a), c32WellFormed(b)), rt.And(c32WellFormed(c), c32WellFormed(d))))
	s1 := ComputeSessionID(peer.ID(a), peer.ID(b))
	s2 := ComputeSessionID(peer.ID(c), peer.ID(d))
	samePair := rt.Or(rt.And(a == c, b == d), rt.And(a == d, b == c))
	rt.Assert("full-length ids: equal session ids iff same unordered pair", rt.Iff(rt.BytesEq(s1, s2), samePair))
	rt.Reach("end")
}

func c32SortedDistinct(l [][]byte) bool {
	ok := true
	for i := 0; i+1 < len(l); i++ {
		ok = rt.And(ok, rt.BytesLess(l[i], l[i+1]))
	}
	return ok
}

// VerifC32Intersection: on two ascending duplicate-free lists FindMatchingHashes returns exactly
// the intersection, ascending, in fresh storage.
func VerifC32Intersection() {
	max := 3
	if rt.Tier() > 0 {
		max = 4
	}
	c32Intersect(rt.IntRange("nlocal", 0, max), rt.IntRange("nremote", 0, max), 2)
}

// VerifC32Uneven: the same for lists of very different lengths (one side solicits one or two
// protocols, the other many), where an implementation may switch strategy.
func VerifC32Uneven() {
	shapes := [][2]int{{1, 5}, {5, 1}, {2, 9}, {9, 2}}
	if rt.Tier() > 0 {
		shapes = append(shapes, [2]int{1, 9}, [2]int{9, 1}, [2]int{2, 11}, [2]int{11, 2}, [2]int{3, 13}, [2]int{13, 3})
	}
	sh := shapes[rt.Choose("shape", len(shapes))]
	c32Intersect(sh[0], sh[1], 1)
}

func c32Intersect(nl, nr, width int) {
	local := make([][]byte, nl)
	remote := make([][]byte, nr)
	for i := range local {
		local[i] = rt.Bytes("l", width, width)
	}
	for i := range remote {
		remote[i] = rt.Bytes("r", width, width)
	}
	rt.Assume(rt.And(c32SortedDistinct(local), c32SortedDistinct(remote)))
	got := FindMatchingHashes(local, remote)
	// every result is in both lists
	for _, g := range got {
		inL, inR := false, false
		for _, l := range local {
			inL = rt.Or(inL, rt.BytesEq(g, l))
			rt.Assert("result does not alias local input", !rt.SameBacking(g, l))
		}
		for _, r := range remote {
			inR = rt.Or(inR, rt.BytesEq(g, r))
			rt.Assert("result does not alias remote input", !rt.SameBacking(g, r))
		}
		rt.Assert("result element is in both lists", rt.And(inL, inR))
	}
	rt.Assert("result ascending and duplicate-free", c32SortedDistinct(got))
	// every common element is in the result
	for _, l := range local {
		common := false
		for _, r := range remote {
			common = rt.Or(common, rt.BytesEq(l, r))
		}
		inG := false
		for _, g := range got {
			inG = rt.Or(inG, rt.BytesEq(g, l))
		}
		rt.Assert("every common element is returned", rt.Implies(common, inG))
	}
	rt.Reach("end")
}
