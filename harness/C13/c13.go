package peer

import (
	"crypto/ed25519"

	"github.com/aperturerobotics/bifrost/crypto"
	rt "github.com/aperturerobotics/bifrost/zz_verifrt"
)

func c13Key(tag string) (crypto.PrivKey, []byte) {
	seed := rt.Bytes(tag, 32, 32)
	std := ed25519.NewKeyFromSeed(seed)
	k, _, err := crypto.KeyPairFromStdKey(&std)
	rt.Assert("key from seed", err == nil)
	return k, seed
}

func c13Derive(ctx string, salt []byte, k crypto.PrivKey, n int) ([]byte, error) {
	out := make([]byte, n)
	err := DeriveKey(ctx, salt, k, out)
	return out, err
}

// VerifC13Total: every input returns a result or an error, never a panic.
func VerifC13Total() {
	k, _ := c13Key("seed")
	ctx := rt.String("ctx", 0, 3)
	var salt []byte
	if rt.Choose("saltnil", 2) == 1 {
		salt = rt.Bytes("salt", 0, 3)
	}
	n := rt.IntRange("outlen", 0, 2)
	if n == 2 {
		n = 64
	} else if n == 1 {
		n = 32
	}
	rt.KnownFinding("C13-empty-context-div-zero", len(ctx) == 0)
	_, err := c13Derive(ctx, salt, k, n)
	_ = err
	rt.Reach("end")
}

// VerifC13Deterministic: the same key with equal context and salt gives equal output, and a
// different context or salt gives a different output (ideal KDF: injective hash inputs).
func VerifC13Deterministic() {
	k, _ := c13Key("seed")
	ctx1 := rt.String("ctx1", 1, 2)
	ctx2 := rt.String("ctx2", 1, 2)
	salt1 := rt.Bytes("salt1", 0, 2)
	salt2 := rt.Bytes("salt2", 0, 2)
	o1, err1 := c13Derive(ctx1, salt1, k, 32)
	o2, err2 := c13Derive(ctx2, salt2, k, 32)
	if err1 != nil || err2 != nil {
		return // not reachable for honest keys; kept so the check does not depend on it
	}
	same := rt.And(ctx1 == ctx2, rt.BytesEq(salt1, salt2))
	rt.Assert("equal inputs give equal outputs", rt.Implies(same, rt.BytesEq(o1, o2)))
	rt.Assert("different context or salt gives different outputs", rt.Implies(rt.Not(same), rt.Not(rt.BytesEq(o1, o2))))
	rt.Reach("end")
}

// VerifC13Repeat: a second derivation on the very same inputs is identical (hidden use of
// randomness or time would surface as a fresh symbol).
func VerifC13Repeat() {
	k, _ := c13Key("seed")
	ctx := rt.String("ctx", 1, 3)
	salt := rt.Bytes("salt", 0, 3)
	o1, err1 := c13Derive(ctx, salt, k, 32)
	o2, err2 := c13Derive(ctx, salt, k, 32)
	rt.Assert("same error behaviour", (err1 == nil) == (err2 == nil))
	if err1 == nil {
		rt.Assert("re-derivation is identical", rt.BytesEq(o1, o2))
	}
	rt.Reach("end")
}

// VerifC13Ed25519: DeriveEd25519Key yields a usable key pair that is a function of the inputs.
func VerifC13Ed25519() {
	k, _ := c13Key("seed")
	ctx := rt.String("ctx", 1, 2)
	salt := rt.Bytes("salt", 0, 2)
	p1, pub1, err := DeriveEd25519Key(ctx, salt, k)
	if err != nil {
		return // not reachable for honest keys; kept so the check does not depend on it
	}
	rt.Assert("derived pair consistent", p1 != nil && pub1 != nil && p1.GetPublic().Equals(pub1))
	p2, _, err := DeriveEd25519Key(ctx, salt, k)
	rt.Assert("derivation repeatable", err == nil && p1.Equals(p2))
	rt.Reach("end")
}
