package peer

import (
	"crypto/ecdh"
	"crypto/ed25519"

	"github.com/aperturerobotics/bifrost/util/extra25519"
	"github.com/zeebo/blake3"

	"github.com/aperturerobotics/bifrost/crypto"
	rt "github.com/aperturerobotics/bifrost/zz_verifrt"
)

func c13Key(tag string) (crypto.PrivKey, []byte) {
	seed := rt.Bytes(tag, 32, 32)
	std := ed25519.NewKeyFromSeed(seed)
	k, _, err := crypto.KeyPairFromStdKey(&std)
	rt.Assert("key from seed", err == nil)
	return k, seed
}

func c13Derive(ctx string, salt []byte, k crypto.PrivKey, n int) ([]byte, error) {
	out := make([]byte, n)
	err := DeriveKey(ctx, salt, k, out)
	return out, err
}

// VerifC13Total: every input returns a result or an error, never a panic.
func VerifC13Total() {
	k, _ := c13Key("seed")
	ctx := rt.String("ctx", 0, 3)
	var salt []byte
	if rt.Choose("saltnil", 2) == 1 {
		salt = rt.Bytes("salt", 0, 3)
	}
	n := rt.IntRange("outlen", 0, 2)
	if n == 2 {
		n = 64
	} else if n == 1 {
		n = 32
	}
	rt.KnownFinding("C13-empty-context-div-zero", len(ctx) == 0)
	_, err := c13Derive(ctx, salt, k, n)
	_ = err
	rt.Reach("end")
}

// VerifC13Deterministic: the same key with equal context and salt gives equal output, and a
// different context or salt gives a different output (ideal KDF: injective hash inputs).
func VerifC13Deterministic() {
	k, _ := c13Key("seed")
	ctx1 := rt.String("ctx1", 1, 2)
	ctx2 := rt.String("ctx2", 1, 2)
	salt1 := rt.Bytes("salt1", 0, 2)
	salt2 := rt.Bytes("salt2", 0, 2)
	o1, err1 := c13Derive(ctx1, salt1, k, 32)
	o2, err2 := c13Derive(ctx2, salt2, k, 32)
	if err1 != nil || err2 != nil {
		return // not reachable for honest keys; kept so the check does not depend on it
	}
	same := rt.And(ctx1 == ctx2, rt.BytesEq(salt1, salt2))
	rt.Assert("equal inputs give equal outputs", rt.Implies(same, rt.BytesEq(o1, o2)))
	rt.Assert("different context or salt gives different outputs", rt.Implies(rt.Not(same), rt.Not(rt.BytesEq(o1, o2))))
	rt.Reach("end")
}

// VerifC13Repeat: a second derivation on the very same inputs is identical (hidden use of
// randomness or time would surface as a fresh symbol).
func VerifC13Repeat() {
	k, _ := c13Key("seed")
	ctx := rt.String("ctx", 1, 3)
	orig := rt.Bytes("salt", 0, 3)
	// the caller's salt is a prefix of a larger buffer (a field cut out of a received message) or an
	// exactly sized slice: deriving must neither depend on nor write to the memory behind it
	spare := rt.Choose("spareCap", 2) * 64
	buf := make([]byte, len(orig)+spare)
	copy(buf, orig)
	for i := len(orig); i < len(buf); i++ {
		buf[i] = 0xA5
	}
	salt := buf[:len(orig)]
	o1, err1 := c13Derive(ctx, salt, k, 32)
	rt.Assert("the caller's salt is unchanged", rt.BytesEq(salt, orig))
	tailOK := true
	for i := len(orig); i < len(buf); i++ {
		tailOK = tailOK && buf[i] == 0xA5
	}
	rt.Assert("memory behind the caller's salt is unchanged", tailOK)
	o2, err2 := c13Derive(ctx, salt, k, 32)
	rt.Assert("same error behaviour", (err1 == nil) == (err2 == nil))
	if err1 == nil {
		rt.Assert("re-derivation is identical", rt.BytesEq(o1, o2))
	}
	rt.Reach("end")
}

// VerifC13Ed25519: DeriveEd25519Key yields a usable key pair that is a function of the inputs.
func VerifC13Ed25519() {
	k, _ := c13Key("seed")
	ctx := rt.String("ctx", 1, 2)
	salt := rt.Bytes("salt", 0, 2)
	p1, pub1, err := DeriveEd25519Key(ctx, salt, k)
	if err != nil {
		return // not reachable for honest keys; kept so the check does not depend on it
	}
	rt.Assert("derived pair consistent", p1 != nil && pub1 != nil && p1.GetPublic().Equals(pub1))
	p2, _, err := DeriveEd25519Key(ctx, salt, k)
	rt.Assert("derivation repeatable", err == nil && p1.Equals(p2))
	rt.Reach("end")
}

// c13SaltLens: salt length classes: short ones and ones around where a fixed-size staging buffer for
// "prefix || salt || material" (23 + salt + 32 bytes) would overflow 64, 128 or 256 bytes.
func c13SaltLens() []int {
	if rt.Tier() > 0 {
		return []int{0, 1, 3, 9, 10, 41, 42, 73, 74, 105, 106, 201, 202, 233, 234}
	}
	return []int{0, 1, 9, 10, 73, 74, 105, 106}
}

// c13Reference is the specification of DeriveKey written against the same primitives: the X25519 form
// of the key, an ephemeral key seeded by BLAKE3(x25519 key || context), their shared secret xored with
// the repeated context, and BLAKE3-derive(context) over prefix || salt || that material.
func c13Reference(context string, salt []byte, seed []byte, n int) ([]byte, bool) {
	std := ed25519.NewKeyFromSeed(seed)
	x := extra25519.PrivateKeyToCurve25519(std)
	xk, err := ecdh.X25519().NewPrivateKey(x[:32])
	if err != nil {
		return nil, false
	}
	ephSeed := blake3.Sum256(append(append([]byte{}, x[:]...), context...))
	eph := ed25519.NewKeyFromSeed(ephSeed[:])
	ephX, valid := extra25519.PublicKeyToCurve25519(eph.Public().(ed25519.PublicKey))
	if !valid {
		return nil, false
	}
	ephPub, err := ecdh.X25519().NewPublicKey(ephX[:])
	if err != nil {
		return nil, false
	}
	material, err := xk.ECDH(ephPub)
	if err != nil {
		return nil, false
	}
	m := make([]byte, len(material))
	for i := range material {
		m[i] = material[i] ^ context[i%len(context)]
	}
	in := append([]byte("bifrost/peer/derive-key"), salt...)
	in = append(in, m...)
	out := make([]byte, n)
	blake3.DeriveKey(context, in, out)
	return out, true
}

// VerifC13Salt: for salts of every length class and output lengths on both sides of the digest size
// the result is exactly the specified derivation: the whole salt and the whole key material reach the
// KDF; two salts of one length class that differ anywhere give different outputs.
func VerifC13Salt() {
	k1, seed1 := c13Key("seed1")
	ctx := rt.String("ctx", 1, 2)
	salt1 := rt.BytesOfLen("salt1", c13SaltLens()...)
	n := []int{32, 64}[rt.Choose("outlen", 2)]
	o1, err1 := c13Derive(ctx, salt1, k1, n)
	ref, ok := c13Reference(ctx, salt1, seed1, n)
	rt.Assert("DeriveKey fails exactly when the specified derivation is undefined", (err1 == nil) == ok)
	if err1 != nil {
		return
	}
	rt.Assert("the output is the specified derivation of (key, context, salt)", rt.BytesEq(o1, ref))
	salt2 := rt.Bytes("salt2", len(salt1), len(salt1))
	o2, err2 := c13Derive(ctx, salt2, k1, n)
	if err2 != nil {
		return
	}
	rt.Assert("salts that differ anywhere give different outputs", rt.Implies(rt.Not(rt.BytesEq(salt1, salt2)), rt.Not(rt.BytesEq(o1, o2))))
	rt.Reach("end")
}

// VerifC13OutLen: every byte of the output buffer is determined by (key, context, salt), whatever the
// buffer held before, for output lengths on both sides of the 32-byte digest size.
func VerifC13OutLen() {
	k, _ := c13Key("seed")
	ctx := rt.String("ctx", 1, 1)
	salt := rt.Bytes("salt", 0, 1)
	n := []int{1, 31, 32, 33, 64, 65}[rt.Choose("outlen", 6)]
	o1 := rt.Bytes("previous1", n, n)
	o2 := rt.Bytes("previous2", n, n)
	err1 := DeriveKey(ctx, salt, k, o1)
	err2 := DeriveKey(ctx, salt, k, o2)
	if err1 != nil || err2 != nil {
		return
	}
	rt.Assert("the output does not depend on what the buffer held before", rt.BytesEq(o1, o2))
	rt.Reach("end")
}
