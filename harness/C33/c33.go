package link_holdopen_controller

import (
	"context"

	"github.com/aperturerobotics/bifrost/link"
	"github.com/aperturerobotics/bifrost/peer"
	"github.com/aperturerobotics/controllerbus/directive"
	"github.com/sirupsen/logrus"
	rt "github.com/aperturerobotics/bifrost/zz_verifrt"
)

// c33Inst is a directive instance double that counts outstanding strong references.
type c33Inst struct {
	directive.Instance
	strong int
	total  int
}

type c33Ref struct {
	inst     *c33Inst
	released bool
}

func (r *c33Ref) Release() {
	if !r.released {
		r.released = true
		r.inst.strong--
	}
}

func (i *c33Inst) AddReference(cb directive.ReferenceHandler, weak bool) directive.Reference {
	if !weak {
		i.strong++
		i.total++
	}
	return &c33Ref{inst: i}
}

type c33Link struct {
	link.MountedLink
	id uint64
}

func (l *c33Link) GetLinkUUID() uint64  { return l.id }
func (l *c33Link) GetLocalPeer() peer.ID { return peer.ID("\x00\x01L") }

// VerifC33HoldOpen: for every sequence of link added / removed callbacks and every interleaving of
// the handler's goroutines, at quiescence the handler holds exactly one strong reference on the
// EstablishLink directive while links exist and none when there are none.
func VerifC33HoldOpen() {
	p, maxEv := 1, 3
	if rt.Tier() > 0 {
		p, maxEv = 2, 4
	}
	rt.SchedBound(p, true)
	rt.KnownFinding("C33-async-reference-race", true)
	inst := &c33Inst{}
	c := &Controller{}
	h := newEstablishLinkHandler(c, logrus.NewEntry(logrus.New()), inst, peer.ID("\x00\x01R"))
	h.ref = &c33Ref{inst: &c33Inst{}}
	live := 0
	n := rt.IntRange("events", 1, maxEv)
	next := uint64(1)
	for i := 0; i < n; i++ {
		k := 0
		if live > 0 {
			k = rt.Choose("event", 2)
		}
		if k == 0 {
			h.HandleValueAdded(inst, directive.NewAttachedValue(uint32(next), link.MountedLink(&c33Link{id: next})))
			next++
			live++
		} else {
			h.HandleValueRemoved(inst, directive.NewAttachedValue(0, link.MountedLink(&c33Link{id: 99})))
			live--
		}
	}
	rt.Quiesce()
	want := 0
	if live > 0 {
		want = 1
	}
	rt.Assert("links exist <=> exactly one strong reference is held", inst.strong == want)
	rt.Assert("handler's own count of links is exact", h.valCount == live)
	rt.Reach("end")
}

// c33LiveInst is an instance that already has link values when the hold-open handler subscribes: like
// the real directive instance it delivers the existing values from inside AddReference.
type c33LiveInst struct {
	c33Inst
	existing int
	handler  directive.ReferenceHandler
}

func (i *c33LiveInst) AddReference(cb directive.ReferenceHandler, weak bool) directive.Reference {
	if weak && cb != nil && i.handler == nil {
		i.handler = cb
		for k := 0; k < i.existing; k++ {
			cb.HandleValueAdded(i, directive.NewAttachedValue(uint32(100+k), link.MountedLink(&c33Link{id: uint64(100 + k)})))
		}
		return &c33Ref{inst: &c33Inst{}}
	}
	if !weak {
		i.strong++
		i.total++
	}
	return &c33Ref{inst: &i.c33Inst}
}

// VerifC33Existing: the hold-open controller meets a link request that already has 0..2 links (it was
// started after the links came up), then one more link event: at quiescence one strong reference is
// held exactly while links exist, and the handler's count is the number of links.
func VerifC33Existing() {
	p := 1
	if rt.Tier() > 0 {
		p = 2
	}
	rt.SchedBound(p, true)
	inst := &c33LiveInst{existing: rt.Choose("existingLinks", 3)}
	c := &Controller{le: logrus.NewEntry(logrus.New())}
	c.handleEstablishLink(context.Background(), inst, link.NewEstablishLinkWithPeer("", peer.ID("\x00\x01R")))
	live := inst.existing
	rt.Assert("the handler subscribed", inst.handler != nil)
	h := inst.handler.(*establishLinkHandler)
	switch rt.Choose("then", 3) {
	case 1:
		h.HandleValueAdded(inst, directive.NewAttachedValue(7, link.MountedLink(&c33Link{id: 7})))
		live++
	case 2:
		if live > 0 {
			h.HandleValueRemoved(inst, directive.NewAttachedValue(100, link.MountedLink(&c33Link{id: 100})))
			live--
		}
	}
	rt.Quiesce()
	want := 0
	if live > 0 {
		want = 1
	}
	rt.Assert("links that existed before the controller subscribed are held open like later ones", inst.strong == want)
	rt.Assert("the handler counts the links that already existed", h.valCount == live)
	rt.Reach("end")
}
