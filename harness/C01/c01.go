package peer

import (
	"crypto/ed25519"
	"strconv"

	"github.com/aperturerobotics/bifrost/crypto"
	"github.com/aperturerobotics/bifrost/hash"
	rt "github.com/aperturerobotics/bifrost/zz_verifrt"
)

func c01Bounds() (ctxMax, dataMax int) {
	if rt.Tier() > 0 {
		return 4, 3
	}
	return 2, 2
}

// c01RefDigest is the reference digest: the same primitives, selected by the specification's table.
func c01RefDigest(ht hash.HashType, data []byte) ([]byte, bool) {
	switch ht {
	case hash.HashType_HashType_SHA256:
		return rt.RefSHA256(data), true
	case hash.HashType_HashType_SHA1:
		return rt.RefSHA1(data), true
	case hash.HashType_HashType_BLAKE3:
		return rt.RefBLAKE3(data), true
	}
	return nil, false
}

// c01RefBody is the specified signed body: ctx || " - SIGN - " || decimal(ht) || " - SIGN - " || H_ht(data).
func c01RefBody(ctx string, ht hash.HashType, data []byte) ([]byte, bool) {
	d, ok := c01RefDigest(ht, data)
	if !ok {
		return nil, false
	}
	b := []byte(ctx)
	b = append(b, " - SIGN - "...)
	b = append(b, strconv.Itoa(int(ht))...)
	b = append(b, " - SIGN - "...)
	b = append(b, d...)
	return b, true
}

// VerifC01Accept: an arbitrary message object is accepted only if its signature verifies under the
// key embedded in the claimed sender over exactly (context, hash type, digest of body); an honest
// signature is on the path, so acceptance is reachable exactly for the authentic message.
func VerifC01Accept() {
	cm, dm := c01Bounds()
	// an honest signer and an honest message
	seed := rt.Bytes("seed", 32, 32)
	std := ed25519.NewKeyFromSeed(seed)
	sk, _, err := crypto.KeyPairFromStdKey(&std)
	rt.Assert("key from seed", err == nil)
	hctx := rt.String("hctx", cm-1, cm-1)
	hdata := rt.Bytes("hdata", dm-1, dm-1)
	hht := hash.HashType(rt.IntRange("hht", 1, 3))
	honest, err := NewSignedMsg(hctx, sk, hht, hdata)
	rt.Assert("honest message signs", err == nil && honest != nil)

	// the message offered to the verifier: every field arbitrary (it may or may not be the honest one)
	var from string
	key := rt.Bytes("key", 32, 32)
	senderKind := rt.Choose("sender", 3)
	switch senderKind {
	case 0:
		pk, _ := crypto.UnmarshalEd25519PublicKey(key)
		id, _ := IDFromPublicKey(pk)
		from = IDB58Encode(id)
	case 1:
		from = IDB58Encode(ID(rt.Bytes("rawid", 0, 5)))
	case 2:
		from = rt.String("fromtxt", 0, 3)
	}
	data := rt.Bytes("data", 0, dm)
	var sig []byte
	if rt.Tier() > 0 {
		sig = rt.BytesOfLen("sig", 0, 1, 63, 64, 65)
	} else {
		sig = rt.BytesOfLen("sig", 0, 64)
	}
	ht := hash.HashType(rt.U32("ht"))
	ctx := rt.String("ctx", cm-2, cm)
	m := &SignedMsg{FromPeerId: from, Signature: &Signature{HashType: ht, SigData: sig}, Data: data}
	if len(sig) == 0 && rt.Choose("nosig", 2) == 0 {
		m.Signature = nil
	}
	// the wire format lets a message carry a public key next to the signature: none, the sender's own,
	// the key of a second signer (an attacker with an own key pair who has signed the very tuple
	// offered to the verifier), or junk
	if m.Signature != nil && senderKind == 0 {
		switch rt.Choose("attached", 4) {
		case 1:
			m.Signature.PubKey, _ = crypto.MarshalPublicKey(sk.GetPublic())
		case 2:
			seed2 := make([]byte, 32)
			seed2[0] = 0x42
			std2 := ed25519.NewKeyFromSeed(seed2)
			sk2, _, err := crypto.KeyPairFromStdKey(&std2)
			rt.Assert("second key from seed", err == nil)
			if evil, _ := NewSignature(ctx, sk2, ht, data, true); evil != nil {
				m.Signature.PubKey = evil.PubKey
				// the attacker's own signature is among the symbolic ones; offering it by construction
				// keeps a counterexample replayable with the real primitive
				if len(sig) == 64 && rt.Choose("attackerSig", 2) == 1 {
					sig = evil.SigData
					m.Signature.SigData = sig
				}
				// the attacker is a different party than the claimed sender
				pk2raw, _ := sk2.GetPublic().Raw()
				rt.Assume(rt.Not(rt.BytesEq(pk2raw, key)))
			}
		case 3:
			m.Signature.PubKey = rt.Bytes("attachedraw", 1, 3)
		}
	}

	rt.KnownFinding("C01-verify-error-dropped", true)
	pk, id, err := m.ExtractAndVerify(ctx)
	if err != nil {
		rt.Reach("rejected")
		return
	}
	rt.Reach("accepted")
	rt.Assert("accepted => non-empty body and sender", len(data) > 0 && len(from) > 0)
	rt.Assert("accepted => sender is an Ed25519 identity", senderKind == 0)
	body, ok := c01RefBody(ctx, ht, data)
	rt.Assert("accepted => known hash type", ok)
	rt.Assert("accepted => signature verifies under the sender key over the specified body", m.Signature != nil && ed25519.Verify(key, body, sig))
	raw, _ := pk.Raw()
	rt.Assert("returned key is the sender's key", rt.BytesEq(raw, key))
	rt.Assert("returned id is the sender's id", IDB58Encode(id) == from)
	// by the ideal-signature assumption this means: it is the honest message
	rt.Assert("accepted => authentic", rt.And(rt.And(ctx == hctx, ht == hht), rt.And(rt.BytesEq(data, hdata), rt.BytesEq(sig, honest.Signature.SigData))))
	rt.Reach("end")
}

// VerifC01Honest: the honest message verifies under its own context (completeness, keeps Accept non-vacuous).
func VerifC01Honest() {
	cm, dm := c01Bounds()
	seed := rt.Bytes("seed", 32, 32)
	std := ed25519.NewKeyFromSeed(seed)
	sk, pub, err := crypto.KeyPairFromStdKey(&std)
	rt.Assert("key from seed", err == nil)
	ctx := rt.String("ctx", 0, cm)
	data := rt.Bytes("data", 1, dm)
	ht := hash.HashType(rt.IntRange("ht", 1, 3))
	m, err := NewSignedMsg(ctx, sk, ht, data)
	rt.Assert("sign", err == nil)
	pk, id, err := m.ExtractAndVerify(ctx)
	rt.Assert("honest message accepted", err == nil)
	rt.Assert("key returned", pk != nil && pk.Equals(pub))
	rt.Assert("id matches key", id.MatchesPublicKey(pub))
	// wire round trip
	wire, err := m.MarshalVT()
	rt.Assert("marshal", err == nil)
	m2, err := UnmarshalSignedMsg(wire)
	rt.Assert("unmarshal", err == nil)
	_, _, err = m2.ExtractAndVerify(ctx)
	rt.Assert("decoded honest message accepted", err == nil)
	rt.Reach("end")
}

// VerifC01Wire: arbitrary wire bytes decoded as a signed message never make verification panic.
func VerifC01Wire() {
	n := 5
	if rt.Tier() > 0 {
		n = 8
	}
	b := rt.Bytes("wire", 0, n)
	m, err := UnmarshalSignedMsg(b)
	if err != nil {
		rt.Reach("undecodable")
		return
	}
	rt.KnownFinding("C01-verify-error-dropped", true)
	_, _, err = m.ExtractAndVerify(rt.String("ctx", 0, 1))
	rt.Assert("random wire bytes are not an authentic message", err != nil)
	rt.Reach("end")
}

// VerifC01Repeat: verification keeps no state between calls: after the authentic message was accepted,
// a copy with another body (same sender, same signature) is still rejected, and the authentic one is
// still accepted afterwards.
func VerifC01Repeat() {
	seed := rt.Bytes("seed", 32, 32)
	std := ed25519.NewKeyFromSeed(seed)
	sk, _, err := crypto.KeyPairFromStdKey(&std)
	rt.Assert("key from seed", err == nil)
	ctx := rt.String("ctx", 1, 1)
	data := rt.Bytes("data", 1, 1)
	ht := hash.HashType(rt.IntRange("ht", 1, 3))
	m, err := NewSignedMsg(ctx, sk, ht, data)
	rt.Assert("sign", err == nil)
	_, _, err = m.ExtractAndVerify(ctx)
	rt.Assert("authentic message accepted", err == nil)
	t := &SignedMsg{FromPeerId: m.FromPeerId, Signature: &Signature{HashType: m.Signature.HashType, SigData: m.Signature.SigData}, Data: m.Data}
	ctx2 := ctx
	switch rt.Choose("tamper", 3) {
	case 0:
		t.Data = rt.Bytes("data2", 1, 1)
		rt.Assume(t.Data[0] != data[0])
	case 1:
		t.Signature.HashType = hash.HashType(1 + (int(ht) % 3))
	case 2:
		ctx2 = rt.String("ctx2", 1, 1)
		rt.Assume(ctx2 != ctx)
	}
	_, _, err = t.ExtractAndVerify(ctx2)
	rt.Assert("a tampered copy is rejected after the authentic message was accepted", err != nil)
	_, _, err = t.ExtractAndVerify(ctx2)
	rt.Assert("and rejected again", err != nil)
	_, _, err = m.ExtractAndVerify(ctx)
	rt.Assert("the authentic message is still accepted", err == nil)
	rt.Reach("end")
}
